// Package vapi is the harness API of the /verif symbolic engine. Under the
// engine every function here is intercepted; compiled natively (replay) the
// nondeterministic inputs are read from the model file named by VERIF_MODEL.
package vapi

import (
	"encoding/json"
	"fmt"
	"hash"
	"math/big"
	"os"
	"reflect"
	"strings"
	"sync"
	"unsafe"

	"golang.org/x/crypto/blake2b"
)

// Err is the error value produced by the engine's model of fmt.Errorf.
type Err struct {
	Msg    string
	Wraps  []error
	Detail string // engine only: rendered operands, for diagnostics
}

func (e *Err) Error() string   { return e.Msg }
func (e *Err) Unwrap() []error { return e.Wraps }

var (
	mu       sync.Mutex
	model    map[string]string
	seq      = map[string]int{}
	loaded   bool
	Failures []string
	Reached  = map[string]bool{}
	Pruned   string
)

func load() {
	if loaded {
		return
	}
	loaded = true
	model = map[string]string{}
	if p := os.Getenv("VERIF_MODEL"); p != "" {
		b, err := os.ReadFile(p)
		if err != nil {
			panic(err)
		}
		var mf struct {
			Model map[string]string `json:"model"`
		}
		if err := json.Unmarshal(b, &mf); err != nil {
			panic(err)
		}
		model = mf.Model
	}
}

// ResetReplay restarts the nondet sequence counters (native replay only).
func ResetReplay() {
	mu.Lock()
	defer mu.Unlock()
	seq = map[string]int{}
	Failures = nil
	Reached = map[string]bool{}
	Pruned = ""
}

func next(name string) *big.Int {
	mu.Lock()
	defer mu.Unlock()
	load()
	k := fmt.Sprintf("%s#%d", name, seq[name])
	seq[name]++
	v := new(big.Int)
	if s, ok := model[k]; ok {
		v.SetString(s, 10)
	}
	return v
}

// Symbolic reports whether the code runs under the symbolic engine.
func Symbolic() bool { return false }

func U64(name string) uint64 { return next(name).Uint64() }
func U32(name string) uint32 { return uint32(next(name).Uint64()) }
func U16(name string) uint16 { return uint16(next(name).Uint64()) }
func U8(name string) uint8   { return uint8(next(name).Uint64()) }
func I64(name string) int64  { return int64(next(name).Uint64()) }
func Bool(name string) bool  { return next(name).Sign() != 0 }

// Search returns a value in [0,n). Under the engine it is an ordinary
// nondeterministic input; in native replay, when the model's value does not
// make an assertion fail (typically because the model fixed the outcome of an
// idealised hash), ReplayMain retries the harness over all values of each
// Search variable and reports a failure only if the real code fails.
func Search(name string, n uint64) uint64 {
	mu.Lock()
	k := fmt.Sprintf("%s#%d", name, seq[name])
	if _, ok := searchDom[k]; !ok {
		searchDom[k] = n
		searchOrd = append(searchOrd, k)
	}
	ov, has := searchSet[k]
	mu.Unlock()
	v := next(name).Uint64()
	if has {
		v = ov
	}
	if v >= n {
		panic(pruned{"Search out of range"})
	}
	return v
}

var (
	searchDom = map[string]uint64{}
	searchOrd []string
	searchSet = map[string]uint64{}
)

// SetField stores val into the (possibly unexported) field of the struct ptr
// points to. Used to build values of dependency types whose fields cannot be
// named from the harness package.
func SetField(ptr any, field string, val any) {
	f := reflect.ValueOf(ptr).Elem().FieldByName(field)
	if !f.IsValid() {
		panic("vapi.SetField: no field " + field)
	}
	reflect.NewAt(f.Type(), unsafe.Pointer(f.UnsafeAddr())).Elem().Set(reflect.ValueOf(val))
}

// UBits returns a value below 2^bits.
func UBits(name string, bits int) uint64 {
	v := next(name).Uint64()
	if bits < 64 && v >= 1<<uint(bits) {
		panic(pruned{"UBits out of range"})
	}
	return v
}

// Int returns an int in [lo,hi].
func Int(name string, lo, hi int) int {
	v := int(int64(next(name).Uint64()))
	if v < lo || v > hi {
		panic(pruned{"Int out of its assumed range"})
	}
	return v
}

func Bytes32(name string) (out [32]byte) {
	next(name).FillBytes(out[:])
	return
}

// ForgedSig returns 64 adversary-chosen bytes that are not a valid signature
// of anything (natively: the model's bytes, which are not a valid Ed25519
// signature except with negligible probability).
func ForgedSig(name string) (s [64]byte) {
	a, b := Bytes32(name+".a"), Bytes32(name+".b")
	copy(s[:32], a[:])
	copy(s[32:], b[:])
	return
}

type pruned struct{ why string }

// Assume restricts the inputs; natively a violated assumption aborts the replay.
func Assume(c bool) {
	if !c {
		panic(pruned{"assumption violated by the model"})
	}
}

// Assert states a property.
func Assert(label string, c bool) {
	if !c {
		mu.Lock()
		Failures = append(Failures, label)
		mu.Unlock()
		panic(Failed{label})
	}
}

// Failed is the panic value of a failed assertion during native replay.
type Failed struct{ Label string }

func Reach(label string) { mu.Lock(); Reached[label] = true; mu.Unlock() }
func Note(k string, v any) {}
func Log(v any)            {}

// Concrete returns x (under the engine: forks over all feasible values).
func Concrete(x uint64) uint64 { return x }

// Ite64 is a branch-free conditional.
func Ite64(c bool, a, b uint64) uint64 {
	if c {
		return a
	}
	return b
}

var ufTab = map[string]uint64{}

// UF64 is an uninterpreted function (natively: a deterministic hash).
func UF64(name string, args ...uint64) uint64 {
	var sb strings.Builder
	sb.WriteString(name)
	for _, a := range args {
		fmt.Fprintf(&sb, ",%d", a)
	}
	h := blake2b.Sum256([]byte(sb.String()))
	return new(big.Int).SetBytes(h[:8]).Uint64()
}

// UFHash is an idealised hash under a name.
func UFHash(name string, parts ...[]byte) [32]byte {
	var all []byte
	all = append(all, name...)
	for _, p := range parts {
		all = append(all, p...)
	}
	return blake2b.Sum256(all)
}

// symHasher is the engine's replacement for BLAKE2b-256 streaming hashers:
// it accumulates the preimage and hashes it with HashBytes on Sum, so that the
// real encoders decide what is hashed while the hash itself stays idealised.
type symHasher struct{ buf []byte }

func (h *symHasher) Write(p []byte) (int, error) { h.buf = append(h.buf, p...); return len(p), nil }
func (h *symHasher) Sum(b []byte) []byte         { d := HashBytes(h.buf); return append(b, d[:]...) }
func (h *symHasher) Reset()                      { h.buf = h.buf[:0] }
func (h *symHasher) Size() int                   { return 32 }
func (h *symHasher) BlockSize() int              { return 128 }

// NewHasher replaces go.sia.tech/core/blake2b.New256 under the engine.
//
//verif:replace go.sia.tech/core/blake2b.New256
func NewHasher() hash.Hash { return &symHasher{} }

// HashBytes is the idealised BLAKE2b-256.
func HashBytes(b []byte) [32]byte { return blake2b.Sum256(b) }

// Held reports whether mu is held (engine only; natively unknown => true).
func Held(mu *sync.Mutex) bool { return true }

// SetModel installs a model for native replay.
func SetModel(m map[string]string) {
	mu.Lock()
	defer mu.Unlock()
	loaded = true
	model = m
}

// ReplayMain replays the batch file named by VERIF_REPLAY_BATCH against the
// natively compiled harnesses and prints one line per item.
func ReplayMain(hs map[string]func()) {
	p := os.Getenv("VERIF_REPLAY_BATCH")
	if p == "" {
		return
	}
	b, err := os.ReadFile(p)
	if err != nil {
		panic(err)
	}
	var items []struct {
		ID      string            `json:"id"`
		Harness string            `json:"harness"`
		Model   map[string]string `json:"model"`
	}
	if err := json.Unmarshal(b, &items); err != nil {
		panic(err)
	}
	for _, it := range items {
		h, ok := hs[it.Harness]
		if !ok {
			continue
		}
		SetModel(it.Model)
		searchDom, searchOrd, searchSet = map[string]uint64{}, nil, map[string]uint64{}
		failed, panicked := RunReplay(h)
		if len(failed) == 0 && panicked == nil && len(searchOrd) > 0 {
			budget := 20000
		search:
			for _, k := range append([]string{}, searchOrd...) {
				for v := uint64(0); v < searchDom[k] && budget > 0; v++ {
					budget--
					searchSet = map[string]uint64{k: v}
					failed, panicked = RunReplay(h)
					if len(failed) > 0 || panicked != nil {
						break search
					}
				}
			}
			searchSet = map[string]uint64{}
		}
		var reached []string
		for k := range Reached {
			reached = append(reached, k)
		}
		out, _ := json.Marshal(map[string]any{"id": it.ID, "failed": failed, "reached": reached, "panic": fmt.Sprint(panicked), "panicked": panicked != nil, "pruned": Pruned})
		fmt.Printf("VERIF-REPLAY %s\n", out)
	}
}

// RunReplay runs a harness natively and reports the failed assertion labels.
func RunReplay(h func()) (failed []string, panicked any) {
	ResetReplay()
	func() {
		defer func() {
			if r := recover(); r != nil {
				switch r := r.(type) {
				case Failed:
				case pruned:
					Pruned = r.why
				default:
					panicked = r
				}
			}
		}()
		h()
	}()
	return Failures, panicked
}

// ---- scheduler API (go=sched harnesses; no-ops natively) ---------------------

// Yield is a preemption opportunity for the symbolic scheduler.
func Yield() {}

// WaitIdle parks the caller until no other goroutine can run and returns the
// number of other goroutines still alive (blocked).
func WaitIdle() int { return 0 }

// Goroutines returns the number of other live goroutines.
func Goroutines() int { return 0 }

// Blocked describes what the other live goroutines wait for.
func Blocked() string { return "" }

// WaitStuck parks the calling goroutine (a watcher written in the harness)
// until the program under test is stuck: the timer budget of the path is used
// up and every goroutine is blocked. The watcher then inspects the state; it
// is not counted by WaitIdle/Goroutines/Blocked. Natively it never returns.
func WaitStuck() { select {} }

// WatchGlobals starts recording writes to package-level variables of packages
// whose import path ends in pkgSuffix (symbolic executor only).
func WatchGlobals(pkgSuffix string) {}

// WatchedWrites lists the recorded writes ("variable in function; ...").
func WatchedWrites() string { return "" }
