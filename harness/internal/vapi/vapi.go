// Package vapi is the harness API of the /verif symbolic engine. Under the
// engine every function here is intercepted; compiled natively (replay) the
// nondeterministic inputs are read from the model file named by VERIF_MODEL.
package vapi

import (
	"encoding/json"
	"fmt"
	"math/big"
	"os"
	"strings"
	"sync"

	"golang.org/x/crypto/blake2b"
)

// Err is the error value produced by the engine's model of fmt.Errorf.
type Err struct {
	Msg   string
	Wraps []error
}

func (e *Err) Error() string   { return e.Msg }
func (e *Err) Unwrap() []error { return e.Wraps }

var (
	mu       sync.Mutex
	model    map[string]string
	seq      = map[string]int{}
	loaded   bool
	Failures []string
	Reached  = map[string]bool{}
)

func load() {
	if loaded {
		return
	}
	loaded = true
	model = map[string]string{}
	if p := os.Getenv("VERIF_MODEL"); p != "" {
		b, err := os.ReadFile(p)
		if err != nil {
			panic(err)
		}
		var mf struct {
			Model map[string]string `json:"model"`
		}
		if err := json.Unmarshal(b, &mf); err != nil {
			panic(err)
		}
		model = mf.Model
	}
}

// ResetReplay restarts the nondet sequence counters (native replay only).
func ResetReplay() {
	mu.Lock()
	defer mu.Unlock()
	seq = map[string]int{}
	Failures = nil
	Reached = map[string]bool{}
}

func next(name string) *big.Int {
	mu.Lock()
	defer mu.Unlock()
	load()
	k := fmt.Sprintf("%s#%d", name, seq[name])
	seq[name]++
	v := new(big.Int)
	if s, ok := model[k]; ok {
		v.SetString(s, 10)
	}
	return v
}

// Symbolic reports whether the code runs under the symbolic engine.
func Symbolic() bool { return false }

func U64(name string) uint64 { return next(name).Uint64() }
func U32(name string) uint32 { return uint32(next(name).Uint64()) }
func U16(name string) uint16 { return uint16(next(name).Uint64()) }
func U8(name string) uint8   { return uint8(next(name).Uint64()) }
func I64(name string) int64  { return int64(next(name).Uint64()) }
func Bool(name string) bool  { return next(name).Sign() != 0 }

// Int returns an int in [lo,hi].
func Int(name string, lo, hi int) int {
	v := int(int64(next(name).Uint64()))
	if v < lo || v > hi {
		panic(pruned{"Int out of its assumed range"})
	}
	return v
}

func Bytes32(name string) (out [32]byte) {
	next(name).FillBytes(out[:])
	return
}

type pruned struct{ why string }

// Assume restricts the inputs; natively a violated assumption aborts the replay.
func Assume(c bool) {
	if !c {
		panic(pruned{"assumption violated by the model"})
	}
}

// Assert states a property.
func Assert(label string, c bool) {
	if !c {
		mu.Lock()
		Failures = append(Failures, label)
		mu.Unlock()
		panic(Failed{label})
	}
}

// Failed is the panic value of a failed assertion during native replay.
type Failed struct{ Label string }

func Reach(label string) { mu.Lock(); Reached[label] = true; mu.Unlock() }
func Note(k string, v any) {}
func Log(v any)            {}

// Concrete returns x (under the engine: forks over all feasible values).
func Concrete(x uint64) uint64 { return x }

// Ite64 is a branch-free conditional.
func Ite64(c bool, a, b uint64) uint64 {
	if c {
		return a
	}
	return b
}

var ufTab = map[string]uint64{}

// UF64 is an uninterpreted function (natively: a deterministic hash).
func UF64(name string, args ...uint64) uint64 {
	var sb strings.Builder
	sb.WriteString(name)
	for _, a := range args {
		fmt.Fprintf(&sb, ",%d", a)
	}
	h := blake2b.Sum256([]byte(sb.String()))
	return new(big.Int).SetBytes(h[:8]).Uint64()
}

// UFHash is an idealised hash under a name.
func UFHash(name string, parts ...[]byte) [32]byte {
	var all []byte
	all = append(all, name...)
	for _, p := range parts {
		all = append(all, p...)
	}
	return blake2b.Sum256(all)
}

// HashBytes is the idealised BLAKE2b-256.
func HashBytes(b []byte) [32]byte { return blake2b.Sum256(b) }

// Held reports whether mu is held (engine only; natively unknown => true).
func Held(mu *sync.Mutex) bool { return true }

// RunReplay runs a harness natively and reports the failed assertion labels.
func RunReplay(h func()) (failed []string, panicked any) {
	ResetReplay()
	func() {
		defer func() {
			if r := recover(); r != nil {
				switch r.(type) {
				case Failed, pruned:
				default:
					panicked = r
				}
			}
		}()
		h()
	}()
	return Failures, panicked
}
