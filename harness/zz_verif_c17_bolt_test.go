package coreutils

// C17 for the Bolt-backed database: the real BoltChainDB wrapper (db.go) over a
// contract model of go.etcd.io/bbolt. bbolt itself (mmap, B+tree pages, fsync)
// cannot be encoded; what the wrapper relies on is bbolt's documented
// transaction contract, which the stubs below carry:
//   - one writable transaction at a time; Begin while one is open never returns
//   - a transaction sees the committed content plus its own writes; Commit
//     makes them the committed content, Rollback discards them; both close
//     the transaction, after which it (and its buckets) must not be used
//   - CreateBucket of an existing name fails; Bucket of a missing name is nil
//   - Get returns nil for a missing key; for a present key it returns, inside
//     the writing transaction, the very slice that was put (nil stays nil)
//     and, once committed, a non-nil slice (empty for an empty value)
//   - Put rejects an empty key; Delete of a missing key is not an error
//   - a cursor visits the keys in byte order
// The model is validated against the real bbolt by TestVerifBoltModel (native,
// same file): the same random operation sequences through both.

import (
	"bytes"
	"errors"

	"go.etcd.io/bbolt"
	"go.sia.tech/coreutils/chain"
	"go.sia.tech/coreutils/internal/vapi"
)

type bmEntry struct{ k, v []byte }
type bmBucket struct {
	name []byte
	ents []bmEntry
}
type bmState struct{ buckets []*bmBucket }

func (s *bmState) clone(commit bool) *bmState {
	out := &bmState{}
	for _, b := range s.buckets {
		nb := &bmBucket{name: b.name}
		for _, e := range b.ents {
			v := e.v
			if commit && v == nil {
				v = []byte{}
			}
			nb.ents = append(nb.ents, bmEntry{e.k, v})
		}
		out.buckets = append(out.buckets, nb)
	}
	return out
}

func (s *bmState) bucket(name []byte) *bmBucket {
	for _, b := range s.buckets {
		if bytes.Equal(b.name, name) {
			return b
		}
	}
	return nil
}

func (b *bmBucket) find(k []byte) int {
	for i := range b.ents {
		if bytes.Equal(b.ents[i].k, k) {
			return i
		}
	}
	return -1
}

type bmTx struct {
	work   *bmState
	closed bool
}
type bmHandle struct {
	tx *bmTx
	b  *bmBucket
}
type bmCursor struct {
	ents []bmEntry
	pos  int
}
type bmWorld struct {
	committed *bmState
	open      *bbolt.Tx
	txs       map[*bbolt.Tx]*bmTx
	bks       map[*bbolt.Bucket]*bmHandle
	curs      map[*bbolt.Cursor]*bmCursor
	commits   int
	misuse    string // first violation of bbolt's usage contract by the caller
}

var bm *bmWorld

func newBoltModel() *bmWorld {
	bm = &bmWorld{committed: &bmState{}, txs: map[*bbolt.Tx]*bmTx{}, bks: map[*bbolt.Bucket]*bmHandle{}, curs: map[*bbolt.Cursor]*bmCursor{}}
	return bm
}

func (w *bmWorld) bad(what string) {
	if w.misuse == "" {
		w.misuse = what
	}
}

var (
	errBmTxClosed     = errors.New("tx closed")
	errBmBucketExists = errors.New("bucket already exists")
	errBmNameRequired = errors.New("bucket name required")
	errBmKeyRequired  = errors.New("key required")
)

//verif:replace (*go.etcd.io/bbolt.DB).Begin
func stubBoltBegin(db *bbolt.DB, writable bool) (*bbolt.Tx, error) {
	if bm == nil {
		return db.Begin(writable)
	}
	if bm.open != nil {
		bm.bad("Begin while a writable transaction is open (never returns)")
		return nil, errors.New("model: second writer")
	}
	tx := new(bbolt.Tx)
	bm.txs[tx] = &bmTx{work: bm.committed.clone(false)}
	bm.open = tx
	return tx, nil
}

func bmLive(tx *bbolt.Tx, what string) *bmTx {
	t := bm.txs[tx]
	if t == nil || t.closed {
		bm.bad(what + " on a closed transaction")
		return nil
	}
	return t
}

//verif:replace (*go.etcd.io/bbolt.Tx).Bucket
func stubBoltTxBucket(tx *bbolt.Tx, name []byte) *bbolt.Bucket {
	if bm == nil {
		return tx.Bucket(name)
	}
	t := bmLive(tx, "Tx.Bucket")
	if t == nil {
		return nil
	}
	b := t.work.bucket(name)
	if b == nil {
		return nil
	}
	h := new(bbolt.Bucket)
	bm.bks[h] = &bmHandle{t, b}
	return h
}

//verif:replace (*go.etcd.io/bbolt.Tx).CreateBucket
func stubBoltTxCreateBucket(tx *bbolt.Tx, name []byte) (*bbolt.Bucket, error) {
	if bm == nil {
		return tx.CreateBucket(name)
	}
	t := bmLive(tx, "Tx.CreateBucket")
	if t == nil {
		return nil, errBmTxClosed
	}
	if len(name) == 0 {
		return nil, errBmNameRequired
	}
	if t.work.bucket(name) != nil {
		return nil, errBmBucketExists
	}
	b := &bmBucket{name: append([]byte(nil), name...)}
	t.work.buckets = append(t.work.buckets, b)
	h := new(bbolt.Bucket)
	bm.bks[h] = &bmHandle{t, b}
	return h, nil
}

//verif:replace (*go.etcd.io/bbolt.Tx).Commit
func stubBoltTxCommit(tx *bbolt.Tx) error {
	if bm == nil {
		return tx.Commit()
	}
	t := bm.txs[tx]
	if t == nil || t.closed {
		return errBmTxClosed
	}
	bm.committed = t.work.clone(true)
	bm.commits++
	t.closed = true
	bm.open = nil
	return nil
}

//verif:replace (*go.etcd.io/bbolt.Tx).Rollback
func stubBoltTxRollback(tx *bbolt.Tx) error {
	if bm == nil {
		return tx.Rollback()
	}
	t := bm.txs[tx]
	if t == nil || t.closed {
		return errBmTxClosed
	}
	t.closed = true
	bm.open = nil
	return nil
}

func bmHandleOf(b *bbolt.Bucket, what string) *bmHandle {
	h := bm.bks[b]
	if h == nil || h.tx.closed {
		bm.bad(what + " on a bucket of a closed transaction")
		return nil
	}
	return h
}

//verif:replace (*go.etcd.io/bbolt.Bucket).Get
func stubBoltGet(b *bbolt.Bucket, key []byte) []byte {
	if bm == nil {
		return b.Get(key)
	}
	h := bmHandleOf(b, "Bucket.Get")
	if h == nil {
		return nil
	}
	if i := h.b.find(key); i >= 0 {
		return h.b.ents[i].v
	}
	return nil
}

//verif:replace (*go.etcd.io/bbolt.Bucket).Put
func stubBoltPut(b *bbolt.Bucket, key, value []byte) error {
	if bm == nil {
		return b.Put(key, value)
	}
	h := bmHandleOf(b, "Bucket.Put")
	if h == nil {
		return errBmTxClosed
	}
	if len(key) == 0 {
		return errBmKeyRequired
	}
	if i := h.b.find(key); i >= 0 {
		h.b.ents[i].v = value
		return nil
	}
	h.b.ents = append(h.b.ents, bmEntry{append([]byte(nil), key...), value})
	return nil
}

//verif:replace (*go.etcd.io/bbolt.Bucket).Delete
func stubBoltDelete(b *bbolt.Bucket, key []byte) error {
	if bm == nil {
		return b.Delete(key)
	}
	h := bmHandleOf(b, "Bucket.Delete")
	if h == nil {
		return errBmTxClosed
	}
	if i := h.b.find(key); i >= 0 {
		h.b.ents = append(h.b.ents[:i:i], h.b.ents[i+1:]...)
	}
	return nil
}

//verif:replace (*go.etcd.io/bbolt.Bucket).Cursor
func stubBoltCursor(b *bbolt.Bucket) *bbolt.Cursor {
	if bm == nil {
		return b.Cursor()
	}
	c := new(bbolt.Cursor)
	h := bmHandleOf(b, "Bucket.Cursor")
	cur := &bmCursor{}
	if h != nil {
		// byte order
		cur.ents = append(cur.ents, h.b.ents...)
		for i := 1; i < len(cur.ents); i++ {
			for j := i; j > 0 && bytes.Compare(cur.ents[j].k, cur.ents[j-1].k) < 0; j-- {
				cur.ents[j], cur.ents[j-1] = cur.ents[j-1], cur.ents[j]
			}
		}
	}
	bm.curs[c] = cur
	return c
}

//verif:replace (*go.etcd.io/bbolt.Cursor).First
func stubBoltCursorFirst(c *bbolt.Cursor) ([]byte, []byte) {
	if bm == nil {
		return c.First()
	}
	cur := bm.curs[c]
	cur.pos = 0
	if len(cur.ents) == 0 {
		return nil, nil
	}
	return cur.ents[0].k, cur.ents[0].v
}

//verif:replace (*go.etcd.io/bbolt.Cursor).Next
func stubBoltCursorNext(c *bbolt.Cursor) ([]byte, []byte) {
	if bm == nil {
		return c.Next()
	}
	cur := bm.curs[c]
	cur.pos++
	if cur.pos >= len(cur.ents) {
		return nil, nil
	}
	return cur.ents[cur.pos].k, cur.ents[cur.pos].v
}

//verif:replace (*go.etcd.io/bbolt.DB).Close
func stubBoltClose(db *bbolt.DB) error {
	if bm == nil {
		return db.Close()
	}
	if bm.open != nil {
		bm.bad("DB.Close while a transaction is open (never returns)")
	}
	return nil
}

// ---- the reference model of a chain.DB session (as in harness/chain) ----------

type boltKV struct {
	cPresent, cEmpty [2]bool
	cVal             [2]byte
	pState           [2]int // 0 none, 1 put, 2 deleted
	pVal             [2]byte
	pEmpty           [2]bool
}

func (m *boltKV) visible(i int) (v byte, empty, present bool) {
	switch m.pState[i] {
	case 1:
		return m.pVal[i], m.pEmpty[i], true
	case 2:
		return 0, false, false
	}
	return m.cVal[i], m.cEmpty[i], m.cPresent[i]
}

func (m *boltKV) flush() {
	for i := range m.pState {
		switch m.pState[i] {
		case 1:
			m.cPresent[i], m.cVal[i], m.cEmpty[i] = true, m.pVal[i], m.pEmpty[i]
		case 2:
			m.cPresent[i] = false
		}
		m.pState[i] = 0
	}
}

func (m *boltKV) cancel() {
	for i := range m.pState {
		m.pState[i] = 0
	}
}

func boltMatches(got []byte, v byte, empty bool) bool {
	if got == nil {
		return false
	}
	if empty {
		return len(got) == 0
	}
	return len(got) == 1 && got[0] == v
}

func boltKVCheck(b chain.DBBucket, keys [2][]byte, m *boltKV) {
	nVisible := 0
	for i := range keys {
		got := b.Get(keys[i])
		v, empty, present := m.visible(i)
		if present {
			nVisible++
			vapi.Assert("bolt.get", boltMatches(got, v, empty))
		} else {
			vapi.Assert("bolt.get", got == nil)
		}
	}
	var seen [2]int
	n := 0
	for k, val := range b.Iter() {
		n++
		for i := range keys {
			if bytes.Equal(k, keys[i]) {
				seen[i]++
				v, empty, present := m.visible(i)
				vapi.Assert("bolt.iter", present && boltMatches(val, v, empty))
			}
		}
	}
	for i := range keys {
		_, _, present := m.visible(i)
		if present {
			vapi.Assert("bolt.iter", seen[i] == 1)
		} else {
			vapi.Assert("bolt.iter", seen[i] == 0)
		}
	}
	vapi.Assert("bolt.iter", n == nVisible)
}

// boltDurable: what the database file holds (the model's committed content)
// is exactly the reference model's committed content.
func boltDurable(name []byte, bucketDurable bool, keys [2][]byte, m *boltKV) {
	cb := bm.committed.bucket(name)
	vapi.Assert("bolt.durable-bucket", (cb != nil) == bucketDurable)
	if cb == nil {
		return
	}
	n := 0
	for i := range keys {
		j := cb.find(keys[i])
		if m.cPresent[i] {
			n++
			vapi.Assert("bolt.durable", j >= 0 && boltMatches(cb.ents[j].v, m.cVal[i], m.cEmpty[i]))
		} else {
			vapi.Assert("bolt.durable", j < 0)
		}
	}
	vapi.Assert("bolt.durable", len(cb.ents) == n)
}

func verifBoltRun(nOps int, narrow bool) {
	w := newBoltModel()
	db := NewBoltChainDB(new(bbolt.DB))
	name := []byte("b")
	var m boltKV
	k0, k1 := vapi.U8("k0"), vapi.U8("k1")
	vapi.Assume(k0 != k1)
	keys := [2][]byte{{k0}, {k1}}
	vapi.Assert("bolt.bucket", db.Bucket(name) == nil)
	b, err := db.CreateBucket(name)
	vapi.Assert("bolt.bucket", err == nil && b != nil)
	bucketDurable := false
	if !narrow && vapi.Bool("flush-after-create") {
		vapi.Assert("bolt.flush", db.Flush() == nil)
		bucketDurable = true
	}
	for step := 0; step < nOps; step++ {
		b = db.Bucket(name)
		vapi.Assert("bolt.bucket", b != nil)
		ki, maxOp := 0, 3
		if !narrow {
			ki, maxOp = vapi.Int("key", 0, 1), 4
		}
		commitsBefore := w.commits
		flushed := false
		switch vapi.Int("op", 0, maxOp) {
		case 4:
			_, err := db.CreateBucket(name)
			vapi.Assert("bolt.duplicate-create-refused", err != nil)
		case 0:
			v := vapi.U8("val")
			empty := !narrow && vapi.Bool("empty-value")
			val := []byte{v}
			if empty {
				val = []byte{}
			}
			vapi.Assert("bolt.put", b.Put(keys[ki], val) == nil)
			m.pState[ki], m.pVal[ki], m.pEmpty[ki] = 1, v, empty
		case 1:
			vapi.Assert("bolt.delete", b.Delete(keys[ki]) == nil)
			m.pState[ki] = 2
		case 2:
			vapi.Assert("bolt.flush", db.Flush() == nil)
			m.flush()
			bucketDurable = true
			flushed = true
		case 3:
			db.Cancel()
			m.cancel()
		}
		// the file changes at a Flush, once, and at no other moment
		if flushed {
			vapi.Assert("bolt.flush-is-one-commit", w.commits == commitsBefore+1)
		} else {
			vapi.Assert("bolt.no-commit-without-flush", w.commits == commitsBefore)
		}
		boltDurable(name, bucketDurable, keys, &m)
		b = db.Bucket(name)
		vapi.Assert("bolt.flushed-bucket-survives-cancel", !bucketDurable || b != nil)
		if b == nil {
			vapi.Reach("cancelled-bucket")
			break
		}
		boltKVCheck(b, keys, &m)
	}
	// closing commits what is pending and leaves no transaction open
	vapi.Assert("bolt.close", db.Close() == nil)
	vapi.Assert("bolt.close-leaves-no-transaction", w.open == nil)
	vapi.Assert("bolt.wrapper-respects-bbolt", w.misuse == "")
	vapi.Note("misuse", w.misuse)
	vapi.Reach("done")
}

// VerifH_C17_bolt: BoltChainDB against the same reference model as MemDB and
// CacheDB, every sequence of 4 operations.
//
//verif:harness prop=C17 tier=quick replay=interp require=done bounds="BoltChainDB over the bbolt contract model; 1 bucket, 2 distinct arbitrary 1-byte keys, values of 0 or 1 byte, every sequence of 4 ops from {put,delete,flush,cancel,create-bucket-again}; Get+Iter after every op; the committed file content after every op; then Close"
func VerifH_C17_bolt() { verifBoltRun(4, false) }

//verif:harness prop=C17,C03 tier=quick replay=interp require=done bounds="as VerifH_C17_bolt with 7-operation sessions over the one-key alphabet {put,delete,flush,cancel}"
func VerifH_C17_bolt_long() { verifBoltRun(7, true) }

//verif:harness prop=C17 tier=thorough replay=interp require=done bounds="as VerifH_C17_bolt with sequences of 5 ops"
func VerifH_C17_bolt5() { verifBoltRun(5, false) }
