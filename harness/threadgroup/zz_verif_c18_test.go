package threadgroup

import (
	"context"

	"go.sia.tech/coreutils/internal/vapi"
)

// C18 (thread group): Stop returns only after every added thread called its
// done function, never deadlocks, Add after Stop is rejected; for every
// interleaving of the goroutines below within the preemption bound.

//verif:harness prop=C18 tier=quick replay=interp go=sched preempt=3 require=stopped,rejected,added bounds="1..2 worker goroutines each Add→work→done, 1..2 concurrent Stop calls, every interleaving with ≤3 delays at synchronisation operations"
func VerifH_C18_tg_stop() {
	tg := New()
	nWorkers := vapi.Int("workers", 1, 2)
	nStops := vapi.Int("stops", 1, 2)
	running := 0   // threads between a successful Add and done
	finished := 0  // Stop calls that returned
	for w := 0; w < nWorkers; w++ {
		go func() {
			done, err := tg.Add()
			if err != nil {
				vapi.Assert("add.rejected-only-after-stop", isClosed(tg))
				vapi.Reach("rejected")
				return
			}
			vapi.Reach("added")
			running++
			vapi.Yield()
			// a thread that was admitted keeps running until it says so: Stop
			// must not have returned meanwhile
			vapi.Assert("stop.waits-for-admitted-threads", finished == 0)
			running--
			done()
		}()
	}
	for s := 1; s < nStops; s++ {
		go func() {
			tg.Stop()
			vapi.Assert("stop.second-stop-waits-too", running == 0)
			finished++
		}()
	}
	tg.Stop()
	vapi.Assert("stop.returns-after-all-done", running == 0)
	finished++
	vapi.Reach("stopped")
	_, err := tg.Add()
	vapi.Assert("add.after-stop-rejected", err == ErrClosed)
	n := vapi.WaitIdle()
	vapi.Assert("no-goroutine-left-blocked", n == 0)
}

func isClosed(tg *ThreadGroup) bool {
	select {
	case <-tg.closed:
		return true
	default:
		return false
	}
}

//verif:harness prop=C18 tier=quick replay=interp go=sched preempt=3 require=cancelled-by-stop,cancelled-by-caller,rejected bounds="AddContext from a background or cancellable parent, concurrent Stop, caller cancel before/after; ≤3 delays"
func VerifH_C18_tg_context() {
	tg := New()
	parent, pcancel := context.WithCancel(context.Background())
	cancelParent := vapi.Bool("cancel_parent")
	callerCancels := vapi.Bool("caller_cancels")
	stopped := false
	go func() {
		ctx, cancel, err := tg.AddContext(parent)
		if err != nil {
			vapi.Assert("addctx.rejected-only-after-stop", isClosed(tg))
			vapi.Reach("rejected")
			return
		}
		if callerCancels {
			cancel()
			vapi.Assert("addctx.cancel-cancels", ctx.Err() != nil)
			cancel() // idempotent: done must run once
			vapi.Reach("cancelled-by-caller")
			return
		}
		<-ctx.Done()
		vapi.Assert("addctx.cancelled-only-by-stop-or-parent", isClosed(tg) || parent.Err() != nil)
		vapi.Assert("addctx.stop-has-not-returned", !stopped)
		if isClosed(tg) {
			vapi.Reach("cancelled-by-stop")
		}
		cancel()
	}()
	if cancelParent {
		pcancel()
	}
	tg.Stop()
	stopped = true
	n := vapi.WaitIdle()
	vapi.Assert("no-goroutine-left-blocked", n == 0)
	pcancel()
}

//verif:harness prop=C18 tier=thorough replay=interp go=sched preempt=5 require=stopped,rejected,added bounds="as VerifH_C18_tg_stop with ≤5 delays"
func VerifH_C18_tg_stop_deep() { VerifH_C18_tg_stop() }

//verif:harness prop=C18 tier=thorough replay=interp go=sched preempt=5 require=cancelled-by-stop,cancelled-by-caller,rejected bounds="as VerifH_C18_tg_context with ≤5 delays"
func VerifH_C18_tg_context_deep() { VerifH_C18_tg_context() }
