package coreutils

// C05 (block assembly): MineBlock on top of an arbitrary pool. The chain
// manager's answers and the weight function are stubs: pool lists chosen by
// the harness, transaction weights and the block weight limit symbolic.

import (
	"time"

	"go.sia.tech/core/consensus"
	"go.sia.tech/core/types"
	"go.sia.tech/coreutils/chain"
	"go.sia.tech/coreutils/internal/vapi"
)

type minerWorld struct {
	cs     consensus.State
	v1     []types.Transaction
	v2     []types.V2Transaction
	w1, w2 []uint64
	max    uint64
}

var mw *minerWorld

//verif:replace (*go.sia.tech/coreutils/chain.Manager).TipState
func stubTipState(cm *chain.Manager) consensus.State {
	if mw == nil {
		return cm.TipState()
	}
	return mw.cs
}

//verif:replace (*go.sia.tech/coreutils/chain.Manager).Tip
func stubTip(cm *chain.Manager) types.ChainIndex {
	if mw == nil {
		return cm.Tip()
	}
	return mw.cs.Index
}

//verif:replace (*go.sia.tech/coreutils/chain.Manager).PoolTransactions
func stubPoolTransactions(cm *chain.Manager) []types.Transaction {
	if mw == nil {
		return cm.PoolTransactions()
	}
	return mw.v1
}

//verif:replace (*go.sia.tech/coreutils/chain.Manager).V2PoolTransactions
func stubV2PoolTransactions(cm *chain.Manager) []types.V2Transaction {
	if mw == nil {
		return cm.V2PoolTransactions()
	}
	return mw.v2
}

//verif:replace (go.sia.tech/core/consensus.State).TransactionWeight
func stubTxnWeight(s consensus.State, txn types.Transaction) uint64 {
	if mw == nil {
		return s.TransactionWeight(txn)
	}
	return mw.w1[txn.ArbitraryData[0][0]]
}

//verif:replace (go.sia.tech/core/consensus.State).V2TransactionWeight
func stubV2TxnWeight(s consensus.State, txn types.V2Transaction) uint64 {
	if mw == nil {
		return s.V2TransactionWeight(txn)
	}
	if len(txn.ArbitraryData) != 1 {
		return 0 // the miner's own uniqueness transaction
	}
	return mw.w2[txn.ArbitraryData[0]]
}

//verif:replace (go.sia.tech/core/consensus.State).MaxBlockWeight
func stubMaxBlockWeight(s consensus.State) uint64 {
	if mw == nil {
		return s.MaxBlockWeight()
	}
	return mw.max
}

//verif:replace (go.sia.tech/core/consensus.State).Commitment
func stubCommitment(s consensus.State, addr types.Address, txns []types.Transaction, v2txns []types.V2Transaction) types.Hash256 {
	if mw == nil {
		return s.Commitment(addr, txns, v2txns)
	}
	return types.Hash256{0xc0}
}

//verif:replace go.sia.tech/coreutils.FindBlockNonce
func stubFindBlockNonce(cs consensus.State, b *types.Block, timeout time.Duration) bool {
	if mw == nil {
		return FindBlockNonce(cs, b, timeout)
	}
	return true
}

// VerifH_C05_mineblock: the assembled block holds a prefix of the reported v1
// list followed by a prefix of the reported v2 list (every prefix of the pool
// is valid, an arbitrary subset is not), stays within the weight limit, takes
// everything when everything fits, and pays the miner reward plus fees.
//
//verif:harness prop=C05 tier=quick replay=interp go=skip require=all-fit,cut-v1,cut-v2 bounds="0..3 v1 and 0..3 v2 pooled transactions with arbitrary 8-bit weights and fees, arbitrary 10-bit block weight limit, before/after the v2 allow height"
func VerifH_C05_mineblock() {
	net := &consensus.Network{Name: "verif"}
	net.HardforkV2.AllowHeight = 5
	mw = &minerWorld{}
	mw.cs = consensus.State{Network: net, Index: types.ChainIndex{Height: 10, ID: types.BlockID{7}}}
	v2Allowed := vapi.Bool("v2_allowed")
	if !v2Allowed {
		mw.cs.Index.Height = 2
	}
	n1 := vapi.Int("v1_txns", 0, 3)
	n2 := 0
	if v2Allowed {
		n2 = vapi.Int("v2_txns", 0, 3)
	}
	mw.max = vapi.UBits("max_weight", 10)
	var fees1, fees2 []uint64
	for k := 0; k < n1; k++ {
		f := vapi.UBits("fee1", 8)
		mw.v1 = append(mw.v1, types.Transaction{ArbitraryData: [][]byte{{byte(k)}}, MinerFees: []types.Currency{types.NewCurrency64(f)}})
		mw.w1 = append(mw.w1, vapi.UBits("w1", 8))
		fees1 = append(fees1, f)
	}
	for k := 0; k < n2; k++ {
		f := vapi.UBits("fee2", 8)
		mw.v2 = append(mw.v2, types.V2Transaction{ArbitraryData: []byte{byte(k)}, MinerFee: types.NewCurrency64(f)})
		mw.w2 = append(mw.w2, vapi.UBits("w2", 8))
		fees2 = append(fees2, f)
	}
	addr := types.Address{0xaa}
	b, found := MineBlock(nil, addr, time.Second)
	vapi.Assert("mine.found", found)
	vapi.Assert("mine.on-tip", b.ParentID == mw.cs.Index.ID)
	vapi.Assert("mine.v2-iff-allowed", (b.V2 != nil) == v2Allowed)

	// v1 part: a prefix of the pool's list
	vapi.Assert("mine.v1-prefix-length", len(b.Transactions) <= n1)
	var weight, fees uint64
	for k := range b.Transactions {
		vapi.Assert("mine.v1-is-a-prefix-of-the-pool", b.Transactions[k].ArbitraryData[0][0] == byte(k))
		weight += mw.w1[k]
		fees += fees1[k]
	}
	cutV1 := len(b.Transactions) < n1
	if cutV1 {
		vapi.Reach("cut-v1")
		// stopped only because the next one did not fit
		vapi.Assert("mine.v1-cut-only-when-full", weight+mw.w1[len(b.Transactions)] > mw.max)
	}
	// v2 part: the miner's own transaction, then a prefix of the pool's list
	n2in := 0
	if b.V2 != nil {
		vapi.Assert("mine.v2-height", b.V2.Height == mw.cs.Index.Height+1)
		vapi.Assert("mine.v2-own-first", len(b.V2.Transactions) >= 1 && len(b.V2.Transactions[0].ArbitraryData) == 12)
		n2in = len(b.V2.Transactions) - 1
		vapi.Assert("mine.v2-prefix-length", n2in <= n2)
		for k := 0; k < n2in; k++ {
			txn := b.V2.Transactions[k+1]
			vapi.Assert("mine.v2-is-a-prefix-of-the-pool", len(txn.ArbitraryData) == 1 && txn.ArbitraryData[0] == byte(k))
			weight += mw.w2[k]
			fees += fees2[k]
		}
		if n2in < n2 {
			vapi.Reach("cut-v2")
		}
	}
	if len(b.Transactions) > 0 || n2in > 0 {
		vapi.Assert("mine.within-weight-limit", weight <= mw.max)
	}
	if !cutV1 && n2in == n2 && n1+n2 > 0 {
		vapi.Reach("all-fit")
	}
	var total uint64
	for _, w := range mw.w1 {
		total += w
	}
	for _, w := range mw.w2 {
		total += w
	}
	if total <= mw.max {
		vapi.Assert("mine.everything-that-fits-is-included", len(b.Transactions) == n1 && n2in == n2)
	}
	vapi.Assert("mine.one-payout-to-the-miner", len(b.MinerPayouts) == 1 && b.MinerPayouts[0].Address == addr)
	want := mw.cs.BlockReward().Add(types.NewCurrency64(fees))
	vapi.Assert("mine.payout-is-reward-plus-included-fees", b.MinerPayouts[0].Value == want)
}
