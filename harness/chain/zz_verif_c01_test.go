package chain

import (
	"go.sia.tech/core/consensus"
	"go.sia.tech/core/types"
	"go.sia.tech/coreutils/internal/vapi"
)

// buildTree builds a reachable-by-construction pre-state through the real
// AddBlocks: a main chain of m valid blocks and optionally a side branch of s
// valid blocks forking below the tip whose (symbolic) work decides whether it
// is adopted.
func (c *absChain) buildTree(maxMain, maxSide int) {
	m := vapi.Int("main", 1, maxMain)
	var prev uint64
	var main []types.Block
	for i := 0; i < m; i++ {
		b := c.newBlock(prev, true)
		main = append(main, b)
		prev = b.Nonce
	}
	vapi.Assert("build.main", c.m.AddBlocks(main) == nil)
	vapi.Assert("build.main-tip", c.m.Tip().ID == absID(prev))
	s := vapi.Int("side", 0, maxSide)
	if s > 0 {
		f := vapi.Int("fork", 0, m-1) // height of the fork point
		p := uint64(0)
		if f > 0 {
			p = main[f-1].Nonce
		}
		var side []types.Block
		for i := 0; i < s; i++ {
			b := c.newBlock(p, true)
			side = append(side, b)
			p = b.Nonce
		}
		vapi.Assert("build.side", c.m.AddBlocks(side) == nil)
	}
	c.checkLinked("build")
}

// verifC01 is the C01 harness body: after building a tree, one AddBlocks call
// with an arbitrary batch.
func verifC01(maxMain, maxSide, maxBatch int, prune bool) {
	c := newAbsChain()
	c.buildTree(maxMain, maxSide)
	existing := len(c.blocks)
	if prune {
		c.pruneAndCheck()
	}

	n := vapi.Int("batch", 1, maxBatch)
	var batch []types.Block
	orphan := false
	prevalidated := vapi.Bool("prevalidated")
	var states []consensus.State
	if prevalidated {
		// a chain of pre-validated v2 blocks on any stored block
		p := vapi.Int("parent", 0, existing)
		pn := uint64(0)
		if p > 0 {
			pn = c.blocks[p-1].Nonce
		}
		_, ok := c.m.State(absID(pn))
		vapi.Assert("build.parent-state", ok)
		ps := c.appliedState(pn) // what a caller that validated the branch holds
		for i := 0; i < n; i++ {
			b := c.newBlock(pn, true)
			b.V2 = &types.V2BlockData{Height: ps.Index.Height + 1}
			ps, _ = stubApplyBlock(ps, b, consensus.V1BlockSupplement{}, b.Timestamp)
			absW.validated[b.Nonce] = true // validated by the caller, by contract
			batch = append(batch, b)
			states = append(states, ps)
			pn = b.Nonce
		}
	}
	for i := 0; i < n && !prevalidated; i++ {
		switch vapi.Int("kind", 0, 3) {
		case 0: // new block on an existing block (or genesis)
			p := vapi.Int("parent", 0, existing)
			pn := uint64(0)
			if p > 0 {
				pn = c.blocks[p-1].Nonce
			}
			batch = append(batch, c.newBlock(pn, false))
		case 1: // new block on the previous batch element
			if i == 0 {
				vapi.Assume(false)
			}
			batch = append(batch, c.newBlock(batch[i-1].Nonce, false))
		case 2: // duplicate of a stored block
			d := vapi.Int("dup", 0, existing-1)
			batch = append(batch, c.blocks[d])
		case 3: // orphan: unknown parent
			b := c.newBlock(0, false)
			b.ParentID = absID(23)
			batch = append(batch, b)
			orphan = true
		}
	}
	pre := c.audit()
	preDiff := uint64(c.m.TipState().OakTime)
	var err error
	if prevalidated {
		err = c.m.AddValidatedV2Blocks(batch, states)
	} else {
		err = c.m.AddBlocks(batch)
	}
	post := c.audit()

	last := batch[n-1].Nonce
	if err != nil {
		vapi.Reach("rejected")
		vapi.Assert("rollback", sameAudit(pre, post))
	} else {
		vapi.Assert("orphan-rejected", !orphan)
		heavier := times5(c.totalWork(last)) > times5(pre.tipWork)+preDiff
		if heavier {
			vapi.Reach("adopted")
			vapi.Assert("adopt.heavier-valid-chain", post.tip.ID == absID(last))
		} else {
			vapi.Reach("kept")
			vapi.Assert("gate.tip-unchanged", sameAudit(pre, post))
		}
	}
	if post.tip != pre.tip {
		vapi.Assert("gate.work", times5(post.tipWork) > times5(pre.tipWork)+preDiff)
		vapi.Assert("gate.work-monotone", post.tipWork >= pre.tipWork)
	}
	c.checkLinked("post")
	if prune {
		c.checkBodies("post")
	}
}

// VerifH_C01_addblocks: every tree of <=2 main + <=2 side blocks (all work
// values symbolic), then every batch of <=2 blocks (new on any stored block,
// chained, duplicate, orphan) with symbolic validity flags and work.
//
//verif:harness prop=C01 tier=quick replay=interp z3timeout=400 require=rejected,adopted,kept bounds="main chain 1..2, side branch 0..2 at any fork height, batch 1..2 blocks of kinds {new-on-any, chained, duplicate, orphan}; work/difficulty symbolic < 2^20; header and body validity symbolic per block; real DBStore+MemDB+codec; consensus abstracted (DESIGN appendix B)"
func VerifH_C01_addblocks() { verifC01(2, 2, 2, false) }

//verif:harness prop=C01 tier=thorough replay=interp z3timeout=400 require=rejected,adopted,kept bounds="as VerifH_C01_addblocks with main<=3, side<=2, batch<=2 (main<=3, side<=3, batch<=3 was tried: 88k paths in 80 min, two queries unknown after the cvc5 fallback: not registered)"
func VerifH_C01_addblocks3() { verifC01(3, 2, 2, false) }

// VerifH_C01_resubmit: the same batch submitted twice. A rejected chain stays
// rejected (nothing a failed attempt leaves in the store may make the second
// attempt skip validation), an adopted one is a no-op the second time.
//
//verif:harness prop=C01 tier=quick replay=interp z3timeout=400 require=rejected-twice,adopted-once bounds="main chain 1..2; a batch of 1..2 new chained blocks on any stored block, validity and work symbolic, submitted twice through AddBlocks"
func VerifH_C01_resubmit() {
	c := newAbsChain()
	c.buildTree(2, 0)
	existing := len(c.blocks)
	n := vapi.Int("batch", 1, 2)
	p := vapi.Int("parent", 0, existing)
	pn := uint64(0)
	if p > 0 {
		pn = c.blocks[p-1].Nonce
	}
	var batch []types.Block
	for i := 0; i < n; i++ {
		b := c.newBlock(pn, false)
		batch = append(batch, b)
		pn = b.Nonce
	}
	pre := c.audit()
	err1 := c.m.AddBlocks(batch)
	mid := c.audit()
	err2 := c.m.AddBlocks(batch)
	post := c.audit()
	if err1 != nil {
		vapi.Reach("rejected-twice")
		vapi.Assert("resubmit.rejected-stays-rejected", err2 != nil)
		vapi.Assert("resubmit.rollback", sameAudit(pre, mid) && sameAudit(pre, post))
	} else {
		vapi.Assert("resubmit.accepted-stays-accepted", err2 == nil)
		vapi.Assert("resubmit.second-is-a-no-op", sameAudit(mid, post))
		if mid.tip != pre.tip {
			vapi.Reach("adopted-once")
		}
	}
	c.checkLinked("post")
}

// VerifH_C01_prevalidated_known: a v2 side block first arrives through
// AddBlocks (stored with a header-derived state, not adopted) and later, with
// a child, through AddValidatedV2Blocks: whichever chain ends up best, every
// best-chain block's stored state is the applied one and the audit holds.
//
//verif:harness prop=C01,C04 tier=quick replay=interp z3timeout=400 require=adopted,kept bounds="main chain of 1..2 v2 blocks; a side block on genesis or on the first main block delivered by AddBlocks, then delivered again with one child by AddValidatedV2Blocks; work symbolic"
func VerifH_C01_prevalidated_known() {
	c := newAbsChain()
	v2 := func(b types.Block) types.Block {
		b.V2 = &types.V2BlockData{Height: c.height[b.Nonce]}
		return b
	}
	nMain := vapi.Int("main", 1, 2)
	prev := uint64(0)
	var main []types.Block
	for i := 0; i < nMain; i++ {
		b := v2(c.newBlock(prev, true))
		vapi.Assert("build.main", c.m.AddBlocks([]types.Block{b}) == nil)
		main = append(main, b)
		prev = b.Nonce
	}
	forkAt := uint64(0)
	if nMain == 2 && vapi.Bool("fork-on-first") {
		forkAt = main[0].Nonce
	}
	side := v2(c.newBlock(forkAt, true))
	pre := c.audit()
	vapi.Assert("build.side", c.m.AddBlocks([]types.Block{side}) == nil)
	mid := c.audit()
	if mid.tip != pre.tip {
		return // the side block alone was adopted: not the scenario
	}
	child := v2(c.newBlock(side.Nonce, true))
	absW.validated[side.Nonce], absW.validated[child.Nonce] = true, true
	ps, ok := c.m.State(absID(forkAt))
	vapi.Assert("build.fork-state", ok)
	s1, _ := stubApplyBlock(ps, side, consensus.V1BlockSupplement{}, side.Timestamp)
	s2, _ := stubApplyBlock(s1, child, consensus.V1BlockSupplement{}, child.Timestamp)
	err := c.m.AddValidatedV2Blocks([]types.Block{side, child}, []consensus.State{s1, s2})
	vapi.Assert("known.no-error", err == nil)
	post := c.audit()
	if post.tip != mid.tip {
		vapi.Reach("adopted")
		vapi.Assert("known.adopted-tip", post.tip.ID == absID(child.Nonce))
	} else {
		vapi.Reach("kept")
	}
	c.checkLinked("known")
	// the stored states are the ones the caller validated
	got1, ok1 := c.m.State(absID(side.Nonce))
	vapi.Assert("known.stored-state-is-the-validated-one", ok1 && got1.Elements.NumLeaves == s1.Elements.NumLeaves)
	// a subscriber following from the fork point is handed the same states
	if post.tip.ID == absID(child.Nonce) {
		_, caus, err := c.m.UpdatesSince(types.ChainIndex{Height: c.height[forkAt], ID: absID(forkAt)}, 10)
		vapi.Assert("known.follow-no-error", err == nil && len(caus) == 2)
		if err == nil && len(caus) == 2 {
			vapi.Assert("known.follow-carries-the-validated-states", caus[0].State.Elements.NumLeaves == s1.Elements.NumLeaves && caus[1].State.Elements.NumLeaves == s2.Elements.NumLeaves)
		}
	}
}
