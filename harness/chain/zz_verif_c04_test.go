package chain

import (
	"go.sia.tech/core/consensus"
	"go.sia.tech/core/types"
	"go.sia.tech/coreutils/internal/vapi"
)

// pickIndex returns an arbitrary subscriber position: the zero index, genesis,
// any stored block (on either branch), or an unknown index.
func (c *absChain) pickIndex(name string) (idx types.ChainIndex, known bool) {
	k := vapi.Int(name, -2, len(c.blocks))
	switch {
	case k == -2:
		return types.ChainIndex{}, true
	case k == -1:
		return types.ChainIndex{Height: 1, ID: absID(22)}, false
	case k == 0:
		return types.ChainIndex{Height: 0, ID: absID(0)}, true
	}
	n := c.blocks[k-1].Nonce
	return types.ChainIndex{Height: c.height[n], ID: absID(n)}, true
}

func (c *absChain) onBest(idx types.ChainIndex) bool {
	bi, ok := c.m.BestIndex(idx.Height)
	return ok && bi.ID == idx.ID
}

// followOnce polls once and checks the shape of the answer; returns the index reached.
func (c *absChain) followOnce(tag string, idx types.ChainIndex, max int) (types.ChainIndex, int, bool) {
	rus, aus, err := c.m.UpdatesSince(idx, max)
	if err != nil {
		return idx, 0, false
	}
	tip := c.m.Tip()
	n := len(rus) + len(aus)
	vapi.Assert(tag+".bound", n <= max || (max < 0 && n == 0))
	cur := idx
	for k, ru := range rus {
		// the reverted block is the subscriber's current block, it is not on the best chain,
		// and the update's state is its parent's
		vapi.Assert(tag+".revert.block", ru.Block.ID() == cur.ID)
		vapi.Assert(tag+".revert.off-best", !c.onBest(cur))
		vapi.Assert(tag+".revert.parent", ru.State.Index.ID == ru.Block.ParentID && ru.State.Index.Height+1 == cur.Height)
		st, ok := c.m.State(ru.Block.ParentID)
		vapi.Assert(tag+".revert.state", ok && st.Index == ru.State.Index && st.Attestations == ru.State.Attestations)
		cur = ru.State.Index
		_ = k
	}
	if len(aus) > 0 {
		// applies only start once the subscriber is on the best chain
		vapi.Assert(tag+".apply.from-best", cur == (types.ChainIndex{}) || c.onBest(cur))
	}
	for _, au := range aus {
		want := uint64(0)
		if cur != (types.ChainIndex{}) {
			want = cur.Height + 1
		}
		vapi.Assert(tag+".apply.height", au.State.Index.Height == want)
		vapi.Assert(tag+".apply.on-best", c.onBest(au.State.Index))
		vapi.Assert(tag+".apply.block", au.Block.ID() == au.State.Index.ID)
		if want > 0 {
			vapi.Assert(tag+".apply.linked", au.Block.ParentID == cur.ID)
		}
		st, ok := c.m.State(au.State.Index.ID)
		vapi.Assert(tag+".apply.state", ok && st.Attestations == au.State.Attestations)
		cur = au.State.Index
	}
	// progress: either the tip was reached or the chunk is full
	vapi.Assert(tag+".progress", cur == tip || n == max || max <= 0)
	if max >= 1 && idx != tip {
		vapi.Assert(tag+".progress.nonempty", n >= 1)
	}
	return cur, n, true
}

// VerifH_C04_follow: from any stored index on any branch (or nothing, or an
// unknown index), polling with any chunk size follows a contiguous path to
// the tip.
//
//verif:harness prop=C04 tier=quick replay=interp z3timeout=400 require=reached-tip,unknown-rejected bounds="trees of <=2 main + <=2 side blocks (adopted or not, by symbolic work), subscriber at any stored index / zero / unknown, chunk size 0..3, polls repeated until the tip (<=8)"
func VerifH_C04_follow() {
	c := newAbsChain()
	c.buildTree(2, 2)
	idx, known := c.pickIndex("sub")
	max := vapi.Int("max", 0, 3)
	if !known {
		_, _, err := c.m.UpdatesSince(idx, max)
		vapi.Assert("follow.unknown-index-error", err != nil || max == 0)
		vapi.Reach("unknown-rejected")
		return
	}
	// a subscriber can only have reached blocks that were on the best chain at
	// some moment, i.e. blocks that were applied (stored with a supplement)
	if idx != (types.ChainIndex{}) {
		if _, bs, ok := c.store.Block(idx.ID); !ok || bs == nil {
			_, _, err := c.m.UpdatesSince(idx, max)
			vapi.Assert("follow.never-applied-index-error", err != nil || max == 0 || idx == c.m.Tip())
			vapi.Reach("never-applied")
			return
		}
	}
	cur := idx
	total := 0
	for poll := 0; poll < 8; poll++ {
		next, n, ok := c.followOnce("follow", cur, max)
		vapi.Assert("follow.no-error", ok)
		cur = next
		total += n
		if max == 0 || cur == c.m.Tip() {
			break
		}
	}
	if max > 0 {
		vapi.Assert("follow.reaches-tip", cur == c.m.Tip())
		vapi.Reach("reached-tip")
	}
}

// VerifH_C04_notify: reorg listeners run iff the tip changed, with the new
// tip, and outside the manager's lock (a listener may call back into the
// manager), for both ingestion paths.
//
//verif:harness prop=C04 tier=quick replay=interp z3timeout=400 require=notified,silent bounds="main chain 1..2; one batch of 1..2 v1 blocks via AddBlocks or v2 blocks via AddValidatedV2Blocks with symbolic work"
func VerifH_C04_notify() {
	c := newAbsChain()
	c.buildTree(2, 0)
	calls := 0
	var got types.ChainIndex
	var seenTip types.ChainIndex
	cancel := c.m.OnReorg(func(ci types.ChainIndex) {
		calls++
		got = ci
		seenTip = c.m.Tip() // re-enters the manager: must not deadlock
	})
	pre := c.m.Tip()
	n := vapi.Int("batch", 1, 2)
	parent := absNonce(pre.ID)
	if vapi.Bool("fork") {
		parent = c.parent[parent]
	}
	var err error
	if vapi.Bool("prevalidated") {
		var blocks []types.Block
		var states []consensus.State
		ps := c.appliedState(parent)
		for i := 0; i < n; i++ {
			b := c.newBlock(parent, true)
			b.V2 = &types.V2BlockData{Height: ps.Index.Height + 1}
			absW.validated[b.Nonce] = true // validated by the caller, by contract
			ps, _ = stubApplyBlock(ps, b, consensus.V1BlockSupplement{}, b.Timestamp)
			blocks = append(blocks, b)
			states = append(states, ps)
			parent = b.Nonce
		}
		err = c.m.AddValidatedV2Blocks(blocks, states)
	} else {
		var blocks []types.Block
		for i := 0; i < n; i++ {
			b := c.newBlock(parent, true)
			blocks = append(blocks, b)
			parent = b.Nonce
		}
		err = c.m.AddBlocks(blocks)
	}
	vapi.Assert("notify.no-error", err == nil)
	post := c.m.Tip()
	if post != pre {
		vapi.Assert("notify.called-once", calls == 1)
		vapi.Assert("notify.new-tip", got == post && seenTip == post)
		vapi.Reach("notified")
	} else {
		vapi.Assert("notify.silent", calls == 0)
		vapi.Reach("silent")
	}
	cancel()
	c.checkLinked("notify")
}

// VerifH_C04_subscriptions: several listeners registered and cancelled in any
// order: at a tip change every listener that is registered and not cancelled is
// called exactly once, cancelled ones are not called, and a cancel function
// removes only its own listener. OnReorg keys come from frand (arbitrary
// bytes here); two live listeners are assumed to get different keys.
//
//verif:harness prop=C04 tier=quick replay=interp z3timeout=400 require=notified bounds="up to 3 registrations interleaved with up to 2 cancellations in any order, then one tip change"
func VerifH_C04_subscriptions() {
	c := newAbsChain()
	c.buildTree(1, 0)
	var calls [3]int
	var cancels [3]func()
	live := [3]bool{}
	registered := 0
	for step := 0; step < 5; step++ {
		op := vapi.Int("op", 0, 2) // register, cancel one, done
		if op == 2 {
			break
		}
		if op == 0 {
			if registered == 3 {
				vapi.Assume(false)
			}
			k := registered
			cancels[k] = c.m.OnReorg(func(types.ChainIndex) { calls[k]++ })
			live[k] = true
			registered++
		} else {
			if registered == 0 {
				vapi.Assume(false)
			}
			k := vapi.Int("which", 0, registered-1)
			vapi.Assume(live[k])
			cancels[k]()
			live[k] = false
		}
	}
	pre := c.m.Tip()
	b := c.newBlock(absNonce(pre.ID), true)
	vapi.Assume(times5(absW.work[b.Nonce]) > uint64(c.m.TipState().OakTime))
	vapi.Assert("subs.block", c.m.AddBlocks([]types.Block{b}) == nil && c.m.Tip() != pre)
	for k := 0; k < 3; k++ {
		if live[k] {
			vapi.Assert("subs.live-listener-called-once", calls[k] == 1)
			vapi.Reach("notified")
		} else {
			vapi.Assert("subs.cancelled-listener-not-called", calls[k] == 0)
		}
	}
}
