package chain

import (
	"go.sia.tech/core/types"
	"go.sia.tech/coreutils/internal/vapi"
)

// pruneAndCheck prunes below an arbitrary height and checks that only
// best-chain bodies below it disappeared.
func (c *absChain) pruneAndCheck() {
	pre := c.audit()
	tipH := int(pre.tip.Height)
	// which stored blocks have bodies before
	had := map[uint64]bool{}
	for _, b := range c.blocks {
		_, ok := c.m.Block(absID(b.Nonce))
		had[b.Nonce] = ok
	}
	h := vapi.Int("prune", 0, tipH+2)
	c.m.PruneBlocks(uint64(h))
	post := c.audit()
	vapi.Assert("prune.chain-unchanged", sameAudit(pre, post))
	onBest := map[uint64]int{}
	for hh := 0; hh <= tipH; hh++ {
		onBest[absNonce(post.best[hh].ID)] = hh
	}
	for _, b := range c.blocks {
		id := absID(b.Nonce)
		_, ok := c.m.Block(id)
		bh, isBest := onBest[b.Nonce]
		if isBest && bh < h {
			vapi.Assert("prune.body-removed", !ok)
		} else {
			vapi.Assert("prune.body-kept", ok == had[b.Nonce])
		}
		hdr, hok := c.store.Header(id)
		vapi.Assert("prune.header-kept", hok && hdr.Nonce == b.Nonce && hdr.ParentID == b.ParentID)
		st, sok := c.m.State(id)
		vapi.Assert("prune.state-kept", sok && st.Index.ID == id)
	}
	// genesis body: pruned iff h > 0
	_, gok := c.m.Block(absID(0))
	vapi.Assert("prune.genesis", gok == (h == 0))
	c.checkMinReorg("prune")
	// the read-only queries keep working on a pruned store (a missing body is
	// an absent result or an error, never a panic)
	if absP == nil {
		newAbsPool() // (the fee query revalidates the pool, which goes through the pool stubs)
	}
	_ = c.m.RecommendedFee()
	_, _ = c.m.History()
	_, _, _ = c.m.Headers(post.best[0], 10)
	_, _, _ = c.m.BlocksForHistory([]types.BlockID{post.best[0].ID}, 10)
	_, _, uerr := c.m.UpdatesSince(post.best[0], 10)
	vapi.Assert("prune.follow-from-pruned-index-is-an-error-not-a-guess", uerr != nil || h <= 1 || tipH == 0)
	if h > 0 {
		vapi.Reach("pruned")
	}
}

// checkMinReorg: MinReorgIndex is the lowest best-chain height such that it
// and every height above it still have their bodies.
func (c *absChain) checkMinReorg(tag string) {
	a := c.audit()
	tipH := int(a.tip.Height)
	want := tipH
	for want > 0 {
		if _, ok := c.m.Block(a.best[want-1].ID); !ok {
			break
		}
		want--
	}
	got := c.m.MinReorgIndex()
	vapi.Assert(tag+".min-reorg", got == a.best[want])
}

// checkBodies: every best-chain record that has a body also has a supplement
// (otherwise a later revert dereferences nil).
func (c *absChain) checkBodies(tag string) {
	a := c.audit()
	for hh := 0; hh <= int(a.tip.Height); hh++ {
		_, bs, ok := c.store.Block(a.best[hh].ID)
		if ok {
			vapi.Assert(tag+".body-has-supplement", bs != nil)
		}
	}
	c.checkMinReorg(tag)
}

// VerifH_C19_prune: prune below any height, then any batch as in C01
// (including duplicates of pruned blocks and forks above/at/below the prune
// height): no panic, rollback on failure, structural invariants, bodies only
// with supplements.
//
//verif:harness prop=C19,C01 tier=quick replay=interp z3timeout=400 require=pruned,rejected,adopted,kept bounds="main chain 1..2, side 0..1, prune height 0..tip+2, then a batch of 1..2 blocks as in C01; abstract consensus"
func VerifH_C19_prune() { verifC01(2, 1, 2, true) }

//verif:harness prop=C19 tier=thorough replay=interp z3timeout=400 require=pruned,rejected,adopted,kept bounds="main<=3, side<=1, batch<=2 (main<=3, side<=2, batch<=2 was tried: 47k paths in 48 min with one query unknown: not registered)"
func VerifH_C19_prune3() { verifC01(3, 1, 2, true) }
