package chain

// Abstract transaction validation for the pool harnesses (C05/C13/C14).
// A transaction is valid against a mid-state iff
//   - its per-transaction symbolic flag txBad is false,
//   - none of its siacoin inputs is already spent in the mid-state,
//   - every ephemeral input was created by a transaction applied to the mid-state.
// Harness transactions carry a unique tag in ArbitraryData[0].

import (
	"errors"

	"go.sia.tech/core/consensus"
	"go.sia.tech/core/types"
	"go.sia.tech/coreutils/internal/vapi"
)

type absMS struct {
	spent   map[types.Hash256]bool
	created map[types.Hash256]bool
	base    uint64 // nonce of the block the mid-state builds on
	hasBase bool
}

type absPoolT struct {
	ms      map[*consensus.MidState]*absMS
	txBad   [32]bool // invalid against the tip, by tag
	elemBad [32]bool // proofs invalid against the claimed basis, by tag
	// call logs
	updated []string
	// outputs spent / created on chain, per block nonce (filled in when the
	// harness builds a block that carries transactions)
	spentBy   map[uint64]map[types.Hash256]bool
	createdBy map[uint64]map[types.Hash256]bool
	parentOf  map[uint64]uint64
}

var absP *absPoolT

func newAbsPool() {
	absP = &absPoolT{ms: map[*consensus.MidState]*absMS{}, spentBy: map[uint64]map[types.Hash256]bool{}, createdBy: map[uint64]map[types.Hash256]bool{}}
}

func (p *absPoolT) shadow(ms *consensus.MidState) *absMS {
	s := p.ms[ms]
	if s == nil {
		s = &absMS{spent: map[types.Hash256]bool{}, created: map[types.Hash256]bool{}}
		p.ms[ms] = s
	}
	return s
}

func v2tag(txn types.V2Transaction) byte {
	if len(txn.ArbitraryData) == 0 {
		return 0
	}
	return txn.ArbitraryData[0]
}

func v1tag(txn types.Transaction) byte {
	if len(txn.ArbitraryData) == 0 || len(txn.ArbitraryData[0]) == 0 {
		return 0
	}
	return txn.ArbitraryData[0][0]
}

//verif:replace go.sia.tech/core/consensus.NewMidState
func stubNewMidState(s consensus.State) *consensus.MidState {
	ms := consensus.NewMidState(s) // the real constructor (the stub is on the stack)
	sh := absP.shadow(ms)
	sh.base, sh.hasBase = absNonce(s.Index.ID), true
	return ms
}

// onChain reports whether the chain ending at block k spent / created id.
func (p *absPoolT) onChain(k uint64, tab map[uint64]map[types.Hash256]bool, id types.Hash256) bool {
	for n := 0; k != 0 && n < absMaxBlocks; n++ {
		if tab[k][id] {
			return true
		}
		k = p.parentOf[k]
	}
	return false
}

//verif:replace go.sia.tech/core/consensus.ValidateV2Transaction
func stubValidateV2Transaction(ms *consensus.MidState, txn types.V2Transaction) error {
	s := absP.shadow(ms)
	if absP.txBad[v2tag(txn)] {
		return errors.New("abstract: transaction invalid against the tip")
	}
	for i := range txn.SiacoinInputs {
		// (core checks every input's Merkle proof against the state's accumulator:
		// a proof that was moved by the wrong update, or that still refers to
		// another state than the one validated against, does not verify)
		se := &txn.SiacoinInputs[i].Parent.StateElement
		if proofIsGarbage(se) {
			return errors.New("abstract: siacoin input has an invalid Merkle proof (moved by the wrong update)")
		}
		if s.hasBase && len(se.MerkleProof) == 1 && se.MerkleProof[0][3] == 1 && se.LeafIndex != types.UnassignedLeafIndex && se.MerkleProof[0][0] != byte(s.base) {
			return errors.New("abstract: siacoin input has a Merkle proof for another state")
		}
	}
	for _, sci := range txn.SiacoinInputs {
		id := types.Hash256(sci.Parent.ID)
		if s.spent[id] {
			return errors.New("abstract: siacoin input double-spends parent output")
		}
		if s.hasBase && absP.onChain(s.base, absP.spentBy, id) {
			return errors.New("abstract: siacoin input spends an output already spent on chain")
		}
		if sci.Parent.StateElement.LeafIndex == types.UnassignedLeafIndex && !s.created[id] {
			return errors.New("abstract: siacoin input spends nonexistent ephemeral output")
		}
	}
	return nil
}

//verif:replace (*go.sia.tech/core/consensus.MidState).ApplyV2Transaction
func stubApplyV2Transaction(ms *consensus.MidState, txn types.V2Transaction) {
	s := absP.shadow(ms)
	for _, sci := range txn.SiacoinInputs {
		s.spent[types.Hash256(sci.Parent.ID)] = true
	}
	txid := txn.ID()
	for i := range txn.SiacoinOutputs {
		s.created[types.Hash256(txn.SiacoinOutputID(txid, i))] = true
	}
}

//verif:replace go.sia.tech/core/consensus.ValidateTransaction
func stubValidateTransaction(ms *consensus.MidState, txn types.Transaction, ts consensus.V1TransactionSupplement) error {
	s := absP.shadow(ms)
	if absP.txBad[v1tag(txn)] {
		return errors.New("abstract: transaction invalid against the tip")
	}
	for _, sci := range txn.SiacoinInputs {
		if s.spent[types.Hash256(sci.ParentID)] {
			return errors.New("abstract: siacoin input double-spends parent output")
		}
	}
	return nil
}

//verif:replace (*go.sia.tech/core/consensus.MidState).ApplyTransaction
func stubApplyTransaction(ms *consensus.MidState, txn types.Transaction, ts consensus.V1TransactionSupplement) {
	s := absP.shadow(ms)
	for _, sci := range txn.SiacoinInputs {
		s.spent[types.Hash256(sci.ParentID)] = true
	}
	for i := range txn.SiacoinOutputs {
		s.created[types.Hash256(txn.SiacoinOutputID(i))] = true
	}
}

//verif:replace (*go.sia.tech/core/consensus.ElementAccumulator).ValidateTransactionElements
func stubValidateTransactionElements(acc *consensus.ElementAccumulator, txn types.V2Transaction) error {
	if absP.elemBad[v2tag(txn)] {
		return errors.New("abstract: parent has invalid Merkle proof")
	}
	for i := range txn.SiacoinInputs {
		if proofIsGarbage(&txn.SiacoinInputs[i].Parent.StateElement) {
			return errors.New("abstract: parent has invalid Merkle proof (moved by the wrong update)")
		}
	}
	return nil
}

// ---- transaction builders ----------------------------------------------------

func absOutID(k byte) (id types.SiacoinOutputID) {
	id[0], id[31] = k, 0xcc
	return
}

// newV2 builds a v2 transaction with the given tag spending the confirmed
// outputs named by parents (leaf index = parent number) and, if eph is
// non-nil, the first output of *eph as an ephemeral input.
func newV2(tag byte, eph *types.V2Transaction, parents ...byte) types.V2Transaction {
	txn := types.V2Transaction{ArbitraryData: []byte{tag}, MinerFee: types.NewCurrency64(uint64(tag) + 1)}
	for _, p := range parents {
		txn.SiacoinInputs = append(txn.SiacoinInputs, types.V2SiacoinInput{
			Parent: types.SiacoinElement{
				ID:            absOutID(p),
				StateElement:  types.StateElement{LeafIndex: uint64(p), MerkleProof: []types.Hash256{{p}}},
				SiacoinOutput: types.SiacoinOutput{Value: types.NewCurrency64(100), Address: types.VoidAddress},
			},
			SatisfiedPolicy: types.SatisfiedPolicy{Policy: types.AnyoneCanSpend()},
		})
	}
	if eph != nil {
		txn.SiacoinInputs = append(txn.SiacoinInputs, types.V2SiacoinInput{
			Parent:          eph.EphemeralSiacoinOutput(0),
			SatisfiedPolicy: types.SatisfiedPolicy{Policy: types.AnyoneCanSpend()},
		})
	}
	txn.SiacoinOutputs = []types.SiacoinOutput{{Value: types.NewCurrency64(uint64(tag) + 50), Address: types.VoidAddress}}
	return txn
}

func newV1(tag byte, parents ...byte) types.Transaction {
	txn := types.Transaction{ArbitraryData: [][]byte{{tag}}}
	for _, p := range parents {
		txn.SiacoinInputs = append(txn.SiacoinInputs, types.SiacoinInput{ParentID: absOutID(p)})
	}
	txn.SiacoinOutputs = []types.SiacoinOutput{{Value: types.NewCurrency64(uint64(tag) + 50), Address: types.VoidAddress}}
	return txn
}

func v2ids(txns []types.V2Transaction) []types.TransactionID {
	out := make([]types.TransactionID, len(txns))
	for i := range txns {
		out[i] = txns[i].ID()
	}
	return out
}

func v1ids(txns []types.Transaction) []types.TransactionID {
	out := make([]types.TransactionID, len(txns))
	for i := range txns {
		out[i] = txns[i].ID()
	}
	return out
}

func sameIDs(a, b []types.TransactionID) bool {
	if len(a) != len(b) {
		return false
	}
	for i := range a {
		if a[i] != b[i] {
			return false
		}
	}
	return true
}

// symbolic per-transaction validity
func absTxBad(tag byte) { absP.txBad[tag] = vapi.Bool("txBad") }
