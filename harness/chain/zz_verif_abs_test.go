package chain

// Abstract consensus for the chain-manager harnesses. The manager, the DBStore
// and the MemDB are the real code; go.sia.tech/core's consensus functions are
// replaced (under the symbolic engine only) by the stubs below, which carry
// core's documented pre-conditions as panics and only the post-conditions
// listed in DESIGN.md appendix B.
//
// Encoding of the abstraction inside real values:
//   block id      = f(Nonce)            (harness blocks have unique nonces)
//   total work    = State.Attestations  (uint64, symbolic)
//   difficulty    = State.OakTime       (int64, symbolic)
// Neither field is read by coreutils.

import (
	"encoding/binary"
	"errors"
	"time"

	"go.sia.tech/core/consensus"
	"go.sia.tech/core/types"
	"go.sia.tech/coreutils/internal/vapi"
)

const absMaxBlocks = 24

type absWorldT struct {
	hdrBad  [absMaxBlocks]bool   // header/orphan validation fails for block with this nonce
	bodyBad [absMaxBlocks]bool   // full validation fails
	work    [absMaxBlocks]uint64 // work contributed by the block
	diff    [absMaxBlocks]uint64 // difficulty after the block
	// call log (for ordering obligations)
	validated map[uint64]bool // nonce -> ValidateBlock returned nil at some point
	applyLog  []uint64        // nonces in the order consensus.ApplyBlock was called
	aus       map[uint64]*consensus.ApplyUpdate
	curOldLeaves, curRevertLeaves uint64
	applyTag, revertTag           byte
	applyFrom, revertFrom         byte // the state an update starts from
	proofUpdates                  int
}

var absW *absWorldT

func absID(nonce uint64) (id types.BlockID) {
	binary.LittleEndian.PutUint64(id[:8], nonce)
	id[31] = 0xab
	return
}

func absNonce(id types.BlockID) uint64 { return binary.LittleEndian.Uint64(id[:8]) }

//verif:replace (go.sia.tech/core/types.Block).ID
func stubBlockID(b types.Block) types.BlockID { return absID(b.Nonce) }

//verif:replace (go.sia.tech/core/types.BlockHeader).ID
func stubHeaderID(bh types.BlockHeader) types.BlockID { return absID(bh.Nonce) }

//verif:replace go.sia.tech/core/consensus.ValidateOrphan
func stubValidateOrphan(s consensus.State, b types.Block) error {
	if b.ParentID != s.Index.ID {
		return errors.New("wrong parent ID")
	}
	if absW.hdrBad[b.Nonce] {
		return errors.New("abstract: invalid header")
	}
	return nil
}

//verif:replace go.sia.tech/core/consensus.ValidateHeader
func stubValidateHeader(s consensus.State, bh types.BlockHeader) error {
	if bh.ParentID != s.Index.ID {
		return errors.New("wrong parent ID")
	}
	if absW.hdrBad[bh.Nonce] {
		return errors.New("abstract: invalid header")
	}
	return nil
}

//verif:replace go.sia.tech/core/consensus.ValidateBlock
func stubValidateBlock(s consensus.State, b types.Block, bs consensus.V1BlockSupplement) error {
	if b.ParentID != s.Index.ID {
		return errors.New("wrong parent ID")
	}
	if absW.hdrBad[b.Nonce] {
		return errors.New("abstract: invalid header")
	}
	if absW.bodyBad[b.Nonce] {
		return errors.New("abstract: invalid block body")
	}
	absW.validated[b.Nonce] = true
	return nil
}

//verif:replace go.sia.tech/core/consensus.ApplyHeader
func stubApplyHeader(s consensus.State, bh types.BlockHeader, targetTimestamp time.Time) consensus.State {
	if s.Index.Height > 0 && s.Index.ID != bh.ParentID {
		panic("consensus: cannot apply non-child block")
	}
	next := s
	if bh.ParentID == (types.BlockID{}) {
		next.Index = types.ChainIndex{Height: 0, ID: bh.ID()}
	} else {
		next.Index = types.ChainIndex{Height: s.Index.Height + 1, ID: bh.ID()}
		next.Attestations = s.Attestations + absW.work[bh.Nonce]
		next.OakTime = time.Duration(absW.diff[bh.Nonce])
	}
	return next
}

//verif:replace go.sia.tech/core/consensus.ApplyBlock
func stubApplyBlock(s consensus.State, b types.Block, bs consensus.V1BlockSupplement, targetTimestamp time.Time) (consensus.State, consensus.ApplyUpdate) {
	if s.Index.Height > 0 && s.Index.ID != b.ParentID {
		panic("consensus: cannot apply non-child block")
	}
	if len(bs.Transactions) < len(b.Transactions) {
		panic("consensus: supplement shorter than block") // index out of range in core
	}
	absW.applyLog = append(absW.applyLog, b.Nonce)
	next := stubApplyHeader(s, b.Header(), targetTimestamp)
	var au consensus.ApplyUpdate
	if b.ParentID != (types.BlockID{}) {
		// element accumulator: every block adds its chain index element plus the
		// outputs of its v2 transactions; leaf numbers start far above the
		// confirmed outputs the harness transactions spend
		base := s.Elements.NumLeaves
		if base < absLeafBase {
			base = absLeafBase
		}
		sces, n := absBlockDiffs(b, base+1)
		next.Elements.NumLeaves = n
		vapi.SetField(&au, "sces", sces)
		absW.curOldLeaves = base
		absW.applyTag = byte(b.Nonce)
		absW.applyFrom = byte(absNonce(b.ParentID))
	}
	return next, au
}

const absLeafBase = 1000

// absBlockDiffs lists the siacoin element diffs of the v2 transactions of b in
// application order; leaf numbers for created elements start at first.
func absBlockDiffs(b types.Block, first uint64) ([]consensus.SiacoinElementDiff, uint64) {
	var sces []consensus.SiacoinElementDiff
	pos := map[types.SiacoinOutputID]int{}
	next := first
	for _, txn := range b.V2Transactions() {
		txid := txn.ID()
		for _, sci := range txn.SiacoinInputs {
			if k, ok := pos[sci.Parent.ID]; ok {
				sces[k].Spent = true // created and spent in this block: ephemeral
				continue
			}
			pos[sci.Parent.ID] = len(sces)
			sces = append(sces, consensus.SiacoinElementDiff{SiacoinElement: sci.Parent.Copy(), Spent: true})
		}
		for i, sco := range txn.SiacoinOutputs {
			id := txn.SiacoinOutputID(txid, i)
			pos[id] = len(sces)
			sces = append(sces, consensus.SiacoinElementDiff{
				SiacoinElement: types.SiacoinElement{ID: id, SiacoinOutput: sco, StateElement: types.StateElement{LeafIndex: next, MerkleProof: []types.Hash256{{byte(b.Nonce), 0, 0, 1}}}},
				Created:        true,
			})
			next++
		}
	}
	return sces, next
}

//verif:replace go.sia.tech/core/consensus.RevertBlock
func stubRevertBlock(s consensus.State, b types.Block, bs consensus.V1BlockSupplement) consensus.RevertUpdate {
	if s.Index.ID != b.ParentID {
		panic("consensus: cannot revert non-child block")
	}
	var ru consensus.RevertUpdate
	base := s.Elements.NumLeaves
	if base < absLeafBase {
		base = absLeafBase
	}
	sces, _ := absBlockDiffs(b, base+1)
	// core reverses every diff list of a revert update
	for i, j := 0, len(sces)-1; i < j; i, j = i+1, j-1 {
		sces[i], sces[j] = sces[j], sces[i]
	}
	vapi.SetField(&ru, "sces", sces)
	absW.curRevertLeaves = s.Elements.NumLeaves
	absW.revertTag = byte(absNonce(s.Index.ID))
	absW.revertFrom = byte(b.Nonce)
	return ru
}

// UpdateElementProof: core's pre-conditions as panics; the post-condition is
// modelled by tagging the proof with the state it now refers to. A proof is
// only moved correctly by an update that starts from the state the proof
// refers to: otherwise (an update was skipped or applied twice) the result is
// marked as garbage for good, as a real Merkle proof would be, and
// ValidateTransactionElements rejects it.
//
// proof[0] = {state tag, leaf, 0xEE if garbage, 1 if tagged by an update}
func movedProof(e *types.StateElement, from, to byte) []types.Hash256 {
	g := byte(0)
	if len(e.MerkleProof) == 1 {
		p := e.MerkleProof[0]
		if p[2] == 0xEE || (p[3] == 1 && p[0] != from) {
			g = 0xEE
		}
	}
	return []types.Hash256{{to, byte(e.LeafIndex), g, 1}}
}

func proofIsGarbage(e *types.StateElement) bool {
	return len(e.MerkleProof) == 1 && e.MerkleProof[0][2] == 0xEE
}

//
//verif:replace (go.sia.tech/core/consensus.ApplyUpdate).UpdateElementProof
func stubApplyUpdateProof(au consensus.ApplyUpdate, e *types.StateElement) {
	_ = e.Move() // panics if the element is shared
	if e.LeafIndex == types.UnassignedLeafIndex {
		panic("cannot update an ephemeral element")
	}
	absW.proofUpdates++
	if e.LeafIndex >= absW.curOldLeaves {
		return // newly-added element
	}
	e.MerkleProof = movedProof(e, absW.applyFrom, absW.applyTag)
}

//verif:replace (go.sia.tech/core/consensus.RevertUpdate).UpdateElementProof
func stubRevertUpdateProof(ru consensus.RevertUpdate, e *types.StateElement) {
	_ = e.Move() // panics if the element is shared
	if e.LeafIndex == types.UnassignedLeafIndex {
		panic("cannot update an ephemeral element")
	} else if e.LeafIndex >= absW.curRevertLeaves {
		panic("cannot update an element that is not present in the accumulator")
	}
	absW.proofUpdates++
	e.MerkleProof = movedProof(e, absW.revertFrom, absW.revertTag)
}

//verif:replace (go.sia.tech/core/consensus.State).SufficientlyHeavierThan
func stubSufficientlyHeavierThan(s, t consensus.State) bool {
	// core: work(s) > work(t) + difficulty(t)/5. Over the integers
	// a > b + floor(d/5)  <=>  5a > 5b + d, which avoids a symbolic division
	// (values are < 2^24, so nothing wraps).
	return times5(s.Attestations) > times5(t.Attestations)+uint64(t.OakTime)
}

// times5 avoids a bit-vector multiplier (repeated addition is far cheaper to bit-blast).
func times5(x uint64) uint64 { return x + x + x + x + x }

// absChain is a manager over the real DBStore/MemDB at genesis.
type absChain struct {
	n       *consensus.Network
	genesis types.Block
	db      *MemDB
	store   *DBStore
	m       *Manager
	// harness bookkeeping of every block it created
	blocks  []types.Block
	parent  map[uint64]uint64 // nonce -> parent nonce
	height  map[uint64]uint64
	next    uint64
	genesisNonce uint64
}

func newAbsWorld() {
	absW = &absWorldT{validated: map[uint64]bool{}, aus: map[uint64]*consensus.ApplyUpdate{}}
}

func newAbsChain(opts ...ManagerOption) *absChain { return newAbsChainOn(nil, nil, opts...) }

// newAbsChainOn builds the chain over a caller-supplied DB (default: a fresh
// MemDB); wrap, if given, wraps the store handed to the manager.
// absNetwork is the harness network: every hardfork before v2 active from
// genesis, an empty genesis block with nonce 0.
func absNetwork() (*consensus.Network, types.Block) {
	n, genesis := TestnetZen()
	n.HardforkOak.Height = 0
	n.HardforkOak.FixHeight = 0
	n.HardforkDevAddr.Height = 0
	n.HardforkTax.Height = 0
	n.HardforkStorageProof.Height = 0
	n.HardforkASIC.Height = 0
	n.HardforkFoundation.Height = 0
	n.HardforkV2.AllowHeight = 100
	n.HardforkV2.RequireHeight = 200
	n.HardforkV2.FinalCutHeight = 300
	genesis.Transactions = nil
	genesis.Nonce = 0
	return n, genesis
}

func newAbsChainOn(db DB, wrap func(Store) Store, opts ...ManagerOption) *absChain {
	newAbsWorld()
	n, genesis := TestnetZen()
	n.HardforkOak.Height = 0
	n.HardforkOak.FixHeight = 0
	n.HardforkDevAddr.Height = 0
	n.HardforkTax.Height = 0
	n.HardforkStorageProof.Height = 0
	n.HardforkASIC.Height = 0
	n.HardforkFoundation.Height = 0
	n.HardforkV2.AllowHeight = 100
	n.HardforkV2.RequireHeight = 200
	n.HardforkV2.FinalCutHeight = 300
	genesis.Transactions = nil
	genesis.Nonce = 0
	c := &absChain{n: n, genesis: genesis, db: NewMemDB(), parent: map[uint64]uint64{}, height: map[uint64]uint64{}, next: 1}
	if db == nil {
		db = c.db
	}
	store, tip, err := NewDBStore(db, n, genesis, nil)
	if err != nil {
		panic(err)
	}
	c.store = store
	var st Store = store
	if wrap != nil {
		st = wrap(store)
	}
	c.m = NewManager(st, tip, opts...)
	c.height[0] = 0
	return c
}

// newBlock creates a v1 block on top of the block with nonce parent. Work and
// difficulty are fresh symbolic values (bounded so sums cannot wrap); validity
// flags are symbolic unless forced.
func (c *absChain) newBlock(parent uint64, forceValid bool) types.Block {
	k := c.next
	c.next++
	b := types.Block{ParentID: absID(parent), Nonce: k}
	c.parent[k] = parent
	c.height[k] = c.height[parent] + 1
	w := vapi.UBits("work", 20)
	d := vapi.UBits("diff", 20)
	vapi.Assume(w >= 1)
	absW.work[k], absW.diff[k] = w, d
	if !forceValid {
		absW.hdrBad[k] = vapi.Bool("hdrBad")
		absW.bodyBad[k] = vapi.Bool("bodyBad")
	}
	c.blocks = append(c.blocks, b)
	return b
}

// appliedState is the state after applying block k and its ancestors, as a
// caller that validated the chain itself would have it (the manager's stored
// state of a block that was never applied is derived from the header only).
func (c *absChain) appliedState(k uint64) consensus.State {
	var chain []uint64
	for n := k; n != 0; n = c.parent[n] {
		chain = append([]uint64{n}, chain...)
	}
	s, _ := c.m.State(absID(0))
	for _, n := range chain {
		for _, b := range c.blocks {
			if b.Nonce == n {
				s, _ = stubApplyBlock(s, b, consensus.V1BlockSupplement{}, b.Timestamp)
			}
		}
	}
	return s
}

// totalWork returns the (symbolic) accumulated work of block k.
func (c *absChain) totalWork(k uint64) uint64 {
	var w uint64
	for k != 0 {
		w += absW.work[k]
		k = c.parent[k]
	}
	return w
}

// chainValid reports whether every block from genesis to k is valid.
func (c *absChain) chainOK(k uint64) bool {
	for k != 0 {
		if absW.hdrBad[k] || absW.bodyBad[k] {
			return false
		}
		k = c.parent[k]
	}
	return true
}

// absAudit is everything the manager reports about the best chain.
type absAudit struct {
	tip      types.ChainIndex
	tipWork  uint64
	best     [12]types.ChainIndex
	bestOK   [12]bool
	minReorg types.ChainIndex
}

func (c *absChain) audit() (a absAudit) {
	ts := c.m.TipState()
	a.tip = ts.Index
	a.tipWork = ts.Attestations
	for h := range a.best {
		a.best[h], a.bestOK[h] = c.m.BestIndex(uint64(h))
	}
	return
}

func sameAudit(x, y absAudit) bool {
	if x.tip != y.tip || x.tipWork != y.tipWork {
		return false
	}
	for h := range x.best {
		if x.bestOK[h] != y.bestOK[h] || (x.bestOK[h] && x.best[h] != y.best[h]) {
			return false
		}
	}
	return true
}

// checkLinked asserts the structural invariants of the reported best chain.
func (c *absChain) checkLinked(tag string) {
	a := c.audit()
	tipH := int(a.tip.Height)
	vapi.Assert(tag+".linked.tip-indexed", a.bestOK[tipH] && a.best[tipH] == a.tip)
	for h := 0; h < len(a.best); h++ {
		if h <= tipH {
			vapi.Assert(tag+".linked.present", a.bestOK[h])
			if h > 0 {
				bh, ok := c.store.Header(a.best[h].ID)
				vapi.Assert(tag+".linked.header", ok)
				vapi.Assert(tag+".linked.parent", bh.ParentID == a.best[h-1].ID)
			}
			cs, ok := c.m.State(a.best[h].ID)
			vapi.Assert(tag+".linked.state", ok && cs.Index == a.best[h])
			if h > 0 {
				// the stored state of a best-chain block is the state after
				// applying the block, not the one derived from its header alone
				// (every applied block adds at least its chain index leaf)
				ps, _ := c.m.State(a.best[h-1].ID)
				vapi.Assert(tag+".linked.state-is-the-applied-one", cs.Elements.NumLeaves > ps.Elements.NumLeaves)
			}
			k := absNonce(a.best[h].ID)
			if h > 0 {
				vapi.Assert(tag+".valid.header", !absW.hdrBad[k])
				vapi.Assert(tag+".valid.body", !absW.bodyBad[k])
				vapi.Assert(tag+".valid.was-validated", absW.validated[k])
			}
		} else {
			vapi.Assert(tag+".linked.nothing-above-tip", !a.bestOK[h])
		}
	}
	ts := c.m.TipState()
	st, ok := c.m.State(a.tip.ID)
	vapi.Assert(tag+".linked.tipstate", ok && st.Index == ts.Index && st.Attestations == ts.Attestations)
	vapi.Assert(tag+".linked.tipwork", ts.Attestations == c.totalWork(absNonce(a.tip.ID)))
}
