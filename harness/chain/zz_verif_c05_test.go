package chain

import (
	"go.sia.tech/core/types"
	"go.sia.tech/coreutils/internal/vapi"
)

// v2Block builds a valid v2-carrying block on the current tip confirming txns.
func (w *poolWorld) v2Block(txns ...types.V2Transaction) types.Block {
	tip := w.c.m.Tip()
	b := w.c.newBlock(absNonce(tip.ID), true)
	// heavy enough to be adopted
	vapi.Assume(times5(absW.work[b.Nonce]) > uint64(w.c.m.TipState().OakTime))
	cp := make([]types.V2Transaction, len(txns))
	for i := range txns {
		cp[i] = txns[i].DeepCopy()
	}
	b.V2 = &types.V2BlockData{Height: tip.Height + 1, Transactions: cp}
	// what the block spends and creates on chain
	absP.parentOf = w.c.parent
	sp, cr := map[types.Hash256]bool{}, map[types.Hash256]bool{}
	for i := range cp {
		for _, sci := range cp[i].SiacoinInputs {
			sp[types.Hash256(sci.Parent.ID)] = true
		}
		for k := range cp[i].SiacoinOutputs {
			cr[types.Hash256(cp[i].SiacoinOutputID(cp[i].ID(), k))] = true
		}
	}
	absP.spentBy[b.Nonce], absP.createdBy[b.Nonce] = sp, cr
	return b
}

func (w *poolWorld) inPoolV2(id types.TransactionID) (types.V2Transaction, bool) {
	return w.c.m.V2PoolTransaction(id)
}

// VerifH_C05_revalidate: after the tip moves and an arbitrary subset of the
// pooled transactions has become invalid, the reported pool is the greedy
// prefix-valid subsequence in the original order, lookups agree with the
// lists, and the weight is the sum of the members' weights.
//
//verif:harness prop=C05 tier=quick replay=interp z3timeout=400 require=revalidated bounds="pool of <=2 v1 + <=3 v2 (optionally a parent/child pair); symbolic invalid-now flag per pooled transaction; one empty block applied"
func VerifH_C05_revalidate() { verifRevalidate() }

// VerifH_C14_lookup_after_block: the same scenario judged for C14: after a
// partial revalidation every lookup by id returns exactly the pooled
// transaction with that id, or reports absence.
//
//verif:harness prop=C14 tier=quick replay=interp z3timeout=400 require=revalidated bounds="as VerifH_C05_revalidate"
func VerifH_C14_lookup_after_block() { verifRevalidate() }

func verifRevalidate() {
	w := newPoolWorld(2, 3)
	// the new tip invalidates an arbitrary subset
	for _, t := range w.v1 {
		absTxBad(v1tag(t))
	}
	for i := range w.v2 {
		absTxBad(v2tag(w.v2[i]))
	}
	vapi.Assert("revalidate.block", w.c.m.AddBlocks([]types.Block{w.v2Block()}) == nil)
	got1, got2 := w.c.m.PoolTransactions(), w.c.m.V2PoolTransactions()
	// reference: greedy validation in order, v1 before v2
	var want1, want2 []types.TransactionID
	created := map[types.Hash256]bool{}
	for _, t := range w.v1 {
		if !absP.txBad[v1tag(t)] {
			want1 = append(want1, t.ID())
		}
	}
	for i := range w.v2 {
		t := w.v2[i]
		ok := !absP.txBad[v2tag(t)]
		for _, sci := range t.SiacoinInputs {
			if sci.Parent.StateElement.LeafIndex == types.UnassignedLeafIndex && !created[types.Hash256(sci.Parent.ID)] {
				ok = false
			}
		}
		if ok {
			want2 = append(want2, t.ID())
			for k := range t.SiacoinOutputs {
				created[types.Hash256(t.SiacoinOutputID(t.ID(), k))] = true
			}
		}
	}
	vapi.Assert("revalidate.v1-greedy-prefix", sameIDs(v1ids(got1), want1))
	vapi.Assert("revalidate.v2-greedy-prefix", sameIDs(v2ids(got2), want2))
	var weight uint64
	ts := w.c.m.TipState()
	for _, t := range got1 {
		weight += ts.TransactionWeight(t)
		r, ok := w.c.m.PoolTransaction(t.ID())
		vapi.Assert("revalidate.lookup-kept-v1", ok && r.ID() == t.ID())
	}
	for i := range got2 {
		weight += ts.V2TransactionWeight(got2[i])
		r, ok := w.c.m.V2PoolTransaction(got2[i].ID())
		vapi.Assert("revalidate.lookup-kept-v2", ok && r.ID() == got2[i].ID())
	}
	for _, t := range w.v1 {
		_, ok := w.c.m.PoolTransaction(t.ID())
		vapi.Assert("revalidate.lookup-dropped-v1", ok == !absP.txBad[v1tag(t)])
	}
	vapi.Assert("revalidate.weight", w.c.m.txpool.weight == weight)
	vapi.Reach("revalidated")
}

// VerifH_C05_proofs: a block that confirms a pooled parent (only) keeps the
// pooled child, turns its ephemeral input into the created element, and moves
// every other pooled proof exactly once; reverting the block through a
// heavier fork never panics and leaves a prefix-valid pool.
//
//verif:harness prop=C05 tier=quick replay=interp z3timeout=400 require=confirmed-parent,unrelated-block,reverted bounds="pool = [independent X, parent P, child C of P (ephemeral input)]; next block confirms P or nothing; then optionally a heavier 2-block fork reverts it"
func VerifH_C05_proofs() {
	newAbsPool()
	w := &poolWorld{c: newAbsChain(), next: 1}
	b0 := w.c.newBlock(0, true)
	vapi.Assert("build.block", w.c.m.AddBlocks([]types.Block{b0}) == nil)
	x := newV2(w.tag(), nil, w.parent())
	p := newV2(w.tag(), nil, w.parent())
	ch := newV2(w.tag(), &p)
	tip0 := w.c.m.Tip()
	_, err := w.c.m.AddV2PoolTransactions(tip0, []types.V2Transaction{x})
	vapi.Assert("build.pool", err == nil)
	_, err = w.c.m.AddV2PoolTransactions(tip0, []types.V2Transaction{p, ch})
	vapi.Assert("build.pool", err == nil)
	vapi.Assert("build.pool-lists", sameIDs(v2ids(w.c.m.V2PoolTransactions()), v2ids([]types.V2Transaction{x, p, ch})))
	// optionally a fourth transaction whose (confirmed) input carries an empty
	// proof - the last leaf of a tree with an odd number of leaves has one -
	// which must be moved along like any other
	withEmpty := vapi.Bool("with-empty-proof")
	var z types.V2Transaction
	if withEmpty {
		z = newV2(w.tag(), nil, w.parent())
		z.SiacoinInputs[0].Parent.StateElement.MerkleProof = nil
		_, err = w.c.m.AddV2PoolTransactions(tip0, []types.V2Transaction{z})
		vapi.Assert("build.pool", err == nil)
	}

	confirm := vapi.Bool("confirm-parent")
	var blk types.Block
	if confirm {
		blk = w.v2Block(p)
	} else {
		blk = w.v2Block()
	}
	vapi.Assert("proofs.block", w.c.m.AddBlocks([]types.Block{blk}) == nil)
	vapi.Assert("proofs.tip", w.c.m.Tip().ID == blk.ID())
	pool := w.c.m.V2PoolTransactions()
	if withEmpty {
		zz, ok := w.c.m.V2PoolTransaction(z.ID())
		vapi.Assert("proofs.apply.empty-proof-kept", ok)
		if ok {
			se := zz.SiacoinInputs[0].Parent.StateElement
			vapi.Assert("proofs.apply.empty-proof-moved-to-tip", len(se.MerkleProof) == 1 && se.MerkleProof[0][0] == byte(blk.Nonce))
		}
		if n := len(pool); n > 0 && pool[n-1].ID() == z.ID() {
			pool = pool[:n-1] // (z is last; the checks below are about x, p, ch)
		}
	}
	if confirm {
		vapi.Reach("confirmed-parent")
		vapi.Assert("proofs.apply.kept", sameIDs(v2ids(pool), v2ids([]types.V2Transaction{x, ch})))
		if len(pool) == 2 {
			se := pool[1].SiacoinInputs[0].Parent.StateElement
			vapi.Assert("proofs.apply.child-input-confirmed", se.LeafIndex != types.UnassignedLeafIndex && se.LeafIndex >= absLeafBase)
			vapi.Assert("proofs.apply.child-parent-id", pool[1].SiacoinInputs[0].Parent.ID == ch.SiacoinInputs[0].Parent.ID)
		}
	} else {
		vapi.Reach("unrelated-block")
		// nothing was confirmed or invalidated: everything stays, the child's
		// parent stays ephemeral
		vapi.Assert("proofs.apply.kept-ephemeral", sameIDs(v2ids(pool), v2ids([]types.V2Transaction{x, p, ch})))
		if len(pool) == 3 {
			vapi.Assert("proofs.apply.still-ephemeral", pool[2].SiacoinInputs[0].Parent.StateElement.LeafIndex == types.UnassignedLeafIndex)
		}
	}
	if len(pool) > 0 && pool[0].ID() == x.ID() {
		se := pool[0].SiacoinInputs[0].Parent.StateElement
		vapi.Assert("proofs.apply.moved-to-tip", len(se.MerkleProof) == 1 && se.MerkleProof[0][0] == byte(blk.Nonce) && se.MerkleProof[0][1] == byte(se.LeafIndex))
	}
	if !vapi.Bool("revert") {
		return
	}
	// a heavier fork from tip0 reverts blk
	f1 := w.c.newBlock(absNonce(tip0.ID), true)
	f2 := w.c.newBlock(f1.Nonce, true)
	vapi.Assume(times5(w.c.totalWork(f2.Nonce)) > times5(w.c.totalWork(blk.Nonce))+absW.diff[blk.Nonce])
	vapi.Assert("proofs.fork", w.c.m.AddBlocks([]types.Block{f1, f2}) == nil)
	vapi.Assert("proofs.fork-tip", w.c.m.Tip().ID == f2.ID())
	vapi.Reach("reverted")
	after := w.c.m.V2PoolTransactions()
	// x never depended on blk: it must survive the reorg with a proof at the new tip
	foundX := false
	for i := range after {
		if after[i].ID() == x.ID() {
			foundX = true
			se := after[i].SiacoinInputs[0].Parent.StateElement
			vapi.Assert("proofs.revert.moved-to-tip", len(se.MerkleProof) == 1 && se.MerkleProof[0][0] == byte(f2.Nonce))
		}
		// prefix validity: an ephemeral input needs its creator earlier in the list
		for _, sci := range after[i].SiacoinInputs {
			if sci.Parent.StateElement.LeafIndex == types.UnassignedLeafIndex {
				ok := false
				for j := 0; j < i; j++ {
					for k := range after[j].SiacoinOutputs {
						if after[j].SiacoinOutputID(after[j].ID(), k) == sci.Parent.ID {
							ok = true
						}
					}
				}
				vapi.Assert("proofs.revert.prefix-valid", ok)
			} else {
				vapi.Assert("proofs.revert.no-dangling-leaf", sci.Parent.StateElement.LeafIndex < absLeafBase+1)
			}
		}
	}
	vapi.Assert("proofs.revert.independent-survives", foundX)
}

// VerifH_C05_reverted_retry: transactions of the last reverted block are
// tried again at every revalidation, but behind what the pool already
// accepted: an accepted set is not displaced by a stale transaction that
// becomes valid again.
//
//verif:harness prop=C05 tier=quick replay=interp z3timeout=400 require=kept bounds="v1 or v2; b1 confirms X; a heavier fork reverts it while X is invalid against the fork; a conflicting Y is accepted; X becomes valid again; an unrelated block triggers revalidation"
func VerifH_C05_reverted_retry() {
	newAbsPool()
	w := &poolWorld{c: newAbsChain(), next: 1}
	c := w.c
	b0 := c.newBlock(0, true)
	vapi.Assert("build.block", c.m.AddBlocks([]types.Block{b0}) == nil)
	useV2 := vapi.Bool("v2")
	o := byte(5) // the contested output (leaf number compatible with the block codec)
	var xID, yID types.TransactionID
	var x1, y1 types.Transaction
	var x2, y2 types.V2Transaction
	var b1 types.Block
	if useV2 {
		x2, y2 = newV2(20, nil, o), newV2(21, nil, o)
		xID, yID = x2.ID(), y2.ID()
		b1 = w.v2Block(x2)
	} else {
		x1, y1 = newV1(20, o), newV1(21, o)
		// (only fee-paying transactions of a reverted block are tried again)
		x1.MinerFees = []types.Currency{types.NewCurrency64(3)}
		y1.MinerFees = []types.Currency{types.NewCurrency64(4)}
		xID, yID = x1.ID(), y1.ID()
		b1 = c.newBlock(b0.Nonce, true)
		vapi.Assume(times5(absW.work[b1.Nonce]) > uint64(c.m.TipState().OakTime))
		b1.Transactions = []types.Transaction{x1}
	}
	vapi.Assert("retry.b1", c.m.AddBlocks([]types.Block{b1}) == nil && c.m.Tip().ID == b1.ID())
	// a heavier fork from b0 reverts b1; against it X is (for now) invalid
	absP.txBad[20] = true
	f1 := c.newBlock(b0.Nonce, true)
	f2 := c.newBlock(f1.Nonce, true)
	vapi.Assume(times5(c.totalWork(f2.Nonce)) > times5(c.totalWork(b1.Nonce))+absW.diff[b1.Nonce])
	vapi.Assert("retry.fork", c.m.AddBlocks([]types.Block{f1, f2}) == nil && c.m.Tip().ID == f2.ID())
	inPool := func(id types.TransactionID) bool {
		if useV2 {
			_, ok := c.m.V2PoolTransaction(id)
			return ok
		}
		_, ok := c.m.PoolTransaction(id)
		return ok
	}
	vapi.Assert("retry.x-not-pooled-while-invalid", !inPool(xID))
	// re-broadcasting it now is refused as invalid - never reported as already
	// known, which only a pooled transaction is
	{
		var known bool
		var rerr error
		if useV2 {
			known, rerr = c.m.AddV2PoolTransactions(c.m.Tip(), []types.V2Transaction{x2})
		} else {
			known, rerr = c.m.AddPoolTransactions([]types.Transaction{x1})
		}
		vapi.Assert("retry.known-only-if-pooled", !known && rerr != nil)
	}
	// the conflicting Y is submitted and accepted
	var err error
	if useV2 {
		_, err = c.m.AddV2PoolTransactions(c.m.Tip(), []types.V2Transaction{y2})
	} else {
		_, err = c.m.AddPoolTransactions([]types.Transaction{y1})
	}
	vapi.Assert("retry.y-accepted", err == nil && inPool(yID))
	// X becomes valid again; an unrelated block makes the pool revalidate
	absP.txBad[20] = false
	f3 := c.newBlock(f2.Nonce, true)
	vapi.Assume(times5(absW.work[f3.Nonce]) > uint64(c.m.TipState().OakTime))
	vapi.Assert("retry.block", c.m.AddBlocks([]types.Block{f3}) == nil && c.m.Tip().ID == f3.ID())
	vapi.Assert("retry.accepted-set-outlives-the-stale-transaction", inPool(yID))
	vapi.Assert("retry.stale-conflicting-transaction-stays-out", !inPool(xID))
	vapi.Reach("kept")
}

// VerifH_C05_rebroadcast: a transaction confirmed on a branch that is then
// abandoned stays around as a stale copy (proofs of the old branch) that fails
// every revalidation; when its sender broadcasts it again with its original
// basis it is accepted and retrievable - "known" is only ever said of
// transactions that are in the pool.
//
//verif:harness prop=C05,C14 tier=quick replay=interp z3timeout=400 require=rebroadcast bounds="b0 <- e <- b1 (confirms X, whose pooled proof was moved by e); a heavier 3-block fork from b0; X broadcast again with basis b0"
func VerifH_C05_rebroadcast() {
	newAbsPool()
	w := &poolWorld{c: newAbsChain(), next: 1}
	c := w.c
	b0 := c.newBlock(0, true)
	vapi.Assert("build.block", c.m.AddBlocks([]types.Block{b0}) == nil)
	basis := c.m.Tip()
	x := newV2(20, nil, 5)
	_, err := c.m.AddV2PoolTransactions(basis, []types.V2Transaction{x})
	vapi.Assert("build.pool", err == nil)
	e := w.v2Block()
	vapi.Assert("build.e", c.m.AddBlocks([]types.Block{e}) == nil && c.m.Tip().ID == e.ID())
	pooled, ok := c.m.V2PoolTransaction(x.ID())
	vapi.Assert("build.pooled", ok)
	b1 := w.v2Block(pooled)
	vapi.Assert("build.b1", c.m.AddBlocks([]types.Block{b1}) == nil && c.m.Tip().ID == b1.ID())
	// the pool is looked at while X is confirmed, so the pooled copy is gone
	// and only the block's copy (with proofs for e's state) can come back
	_, ok = c.m.V2PoolTransaction(x.ID())
	vapi.Assert("rebroadcast.confirmed-left-the-pool", !ok)
	f1 := c.newBlock(b0.Nonce, true)
	f2 := c.newBlock(f1.Nonce, true)
	f3 := c.newBlock(f2.Nonce, true)
	vapi.Assume(times5(c.totalWork(f3.Nonce)) > times5(c.totalWork(b1.Nonce))+absW.diff[b1.Nonce])
	vapi.Assert("rebroadcast.fork", c.m.AddBlocks([]types.Block{f1, f2, f3}) == nil && c.m.Tip().ID == f3.ID())
	// the reverted block's copy carries proofs for e's state; in the abstract
	// accumulator these never verify on the other branch
	_, stillThere := c.m.V2PoolTransaction(x.ID())
	vapi.Assert("build.stale-copy-not-pooled", !stillThere)
	known, err := c.m.AddV2PoolTransactions(basis, []types.V2Transaction{x})
	_, got := c.m.V2PoolTransaction(x.ID())
	vapi.Assert("rebroadcast.accepted", err == nil)
	vapi.Assert("rebroadcast.known-only-if-pooled", !known || got)
	vapi.Assert("rebroadcast.retrievable", err != nil || got)
	vapi.Reach("rebroadcast")
}
