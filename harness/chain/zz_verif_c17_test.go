package chain

import (
	"bytes"

	"go.sia.tech/coreutils/internal/vapi"
)

// kvModel is the reference semantics of one bucket over two distinct keys:
// committed content plus an overlay of unflushed puts/deletes.
type kvModel struct {
	cPresent [2]bool
	cVal     [2]byte
	pState   [2]int // 0 none, 1 put, 2 delete
	pVal     [2]byte
	// values are one byte long or empty (an empty value is still a present key)
	cEmpty [2]bool
	pEmpty [2]bool
}

func (m *kvModel) visibleEmpty(i int) bool {
	if m.pState[i] == 1 {
		return m.pEmpty[i]
	}
	return m.cEmpty[i]
}

func kvMatches(got []byte, want byte, empty bool) bool {
	if got == nil {
		return false
	}
	if empty {
		return len(got) == 0
	}
	return len(got) == 1 && got[0] == want
}

func (m *kvModel) visible(i int) (byte, bool) {
	switch m.pState[i] {
	case 1:
		return m.pVal[i], true
	case 2:
		return 0, false
	}
	return m.cVal[i], m.cPresent[i]
}

func (m *kvModel) flush() {
	for i := range m.pState {
		switch m.pState[i] {
		case 1:
			m.cPresent[i], m.cVal[i], m.cEmpty[i] = true, m.pVal[i], m.pEmpty[i]
		case 2:
			m.cPresent[i] = false
		}
		m.pState[i] = 0
	}
}

func (m *kvModel) cancel() {
	for i := range m.pState {
		m.pState[i] = 0
	}
}

// verifKVCheck compares what bucket b serves with the model.
func verifKVCheck(tag string, b DBBucket, keys [2][]byte, m *kvModel) {
	nVisible := 0
	for i := range keys {
		got := b.Get(keys[i])
		want, present := m.visible(i)
		if present {
			nVisible++
			vapi.Assert(tag+".get", kvMatches(got, want, m.visibleEmpty(i)))
		} else {
			vapi.Assert(tag+".get", got == nil)
		}
	}
	var seen [2]int
	n := 0
	for k, v := range b.Iter() {
		n++
		for i := range keys {
			if bytes.Equal(k, keys[i]) {
				seen[i]++
				want, present := m.visible(i)
				vapi.Assert(tag+".iter", present && kvMatches(v, want, m.visibleEmpty(i)))
			}
		}
	}
	for i := range keys {
		_, present := m.visible(i)
		if present {
			vapi.Assert(tag+".iter", seen[i] == 1)
		} else {
			vapi.Assert(tag+".iter", seen[i] == 0)
		}
	}
	vapi.Assert(tag+".iter", n == nVisible)
}

// verifKVRun drives nOps arbitrary operations against db and the model.
func verifKVRun(tag string, db DB, under DB, nOps int) { verifKVRunMode(tag, db, under, nOps, false) }

// verifKVRunMode: narrow = one key, non-empty values, ops {put,delete,flush,
// cancel} only - the alphabet that longer sessions are explored with.
func verifKVRunMode(tag string, db DB, under DB, nOps int, narrow bool) {
	name := []byte("b")
	var m kvModel
	k0, k1 := vapi.U8("k0"), vapi.U8("k1")
	vapi.Assume(k0 != k1)
	keys := [2][]byte{{k0}, {k1}}
	vapi.Assert(tag+".bucket", db.Bucket(name) == nil)
	b, err := db.CreateBucket(name)
	vapi.Assert(tag+".bucket", err == nil && b != nil)
	bucketFlushed := false // the bucket's creation has been flushed
	if !narrow && vapi.Bool("flush-after-create") {
		vapi.Assert(tag+".flush", db.Flush() == nil)
		bucketFlushed = true
	}
	for step := 0; step < nOps; step++ {
		b = db.Bucket(name)
		vapi.Assert(tag+".bucket", b != nil)
		ki, maxOp := 0, 3
		if !narrow {
			ki, maxOp = vapi.Int("key", 0, 1), 4
		}
		switch vapi.Int("op", 0, maxOp) {
		case 4: // creating the bucket again is refused and changes nothing
			_, err := db.CreateBucket(name)
			vapi.Assert(tag+".duplicate-create-refused", err != nil)
		case 0: // put
			v := vapi.U8("val")
			empty := !narrow && vapi.Bool("empty-value")
			val := []byte{v}
			if empty {
				val = []byte{}
			}
			vapi.Assert(tag+".put", b.Put(keys[ki], val) == nil)
			m.pState[ki], m.pVal[ki], m.pEmpty[ki] = 1, v, empty
		case 1: // delete
			vapi.Assert(tag+".delete", b.Delete(keys[ki]) == nil)
			m.pState[ki] = 2
		case 2: // flush
			// one flush of the cache is one commit of the backend, and what the
			// backend holds at that commit is the complete new content
			// (puts and deletes together)
			commits := 0
			if rdb, ok := under.(*recDB); ok {
				exp := m
				exp.flush()
				rdb.onFlush = func() {
					commits++
					ub := rdb.inner.Bucket(name)
					vapi.Assert(tag+".backend-commit-is-atomic", ub != nil)
					for i := range keys {
						got := ub.Get(keys[i])
						if exp.cPresent[i] {
							vapi.Assert(tag+".backend-commit-is-atomic", kvMatches(got, exp.cVal[i], exp.cEmpty[i]))
						} else {
							vapi.Assert(tag+".backend-commit-is-atomic", got == nil)
						}
					}
				}
			}
			vapi.Assert(tag+".flush", db.Flush() == nil)
			if rdb, ok := under.(*recDB); ok {
				rdb.onFlush = nil
				vapi.Assert(tag+".one-backend-commit-per-flush", commits == 1)
			}
			m.flush()
			bucketFlushed = true
			// a bucket handle does not outlive the commit (Bolt): fetch it again
			b = db.Bucket(name)
			vapi.Assert(tag+".bucket", b != nil)
			if under != nil {
				// durable content of the backend equals the committed model
				ub := under.Bucket(name)
				vapi.Assert(tag+".durable", ub != nil)
				for i := range keys {
					got := ub.Get(keys[i])
					if m.cPresent[i] {
						vapi.Assert(tag+".durable", kvMatches(got, m.cVal[i], m.cEmpty[i]))
					} else {
						vapi.Assert(tag+".durable", got == nil)
					}
				}
			}
		case 3: // cancel
			db.Cancel()
			m.cancel()
			// a flushed bucket is durable: Cancel discards only what came after
			vapi.Assert(tag+".flushed-bucket-survives-cancel", !bucketFlushed || db.Bucket(name) != nil)
			if db.Bucket(name) == nil {
				// bucket creation itself was cancelled: nothing more to compare
				vapi.Reach("cancelled-bucket")
				return
			}
			b = db.Bucket(name)
		}
		verifKVCheck(tag, b, keys, &m)
	}
	vapi.Reach("done")
}

// VerifH_C17_mem: MemDB against the reference model, every sequence of 4
// operations over two arbitrary distinct keys and arbitrary values.
//
//verif:harness prop=C17 tier=quick require=done bounds="1 bucket, 2 distinct arbitrary 1-byte keys, arbitrary values of 0 or 1 byte, every sequence of 4 ops from {put,delete,flush,cancel,create-bucket-again}, Get+Iter compared after every op"
func VerifH_C17_mem() {
	verifKVRun("mem", NewMemDB(), nil, 4)
}

// VerifH_C17_cache: CacheDB over MemDB against the same model; additionally
// the backend's durable content after each flush.
//
//verif:harness prop=C17,C03 tier=quick require=done bounds="as VerifH_C17_mem, CacheDB over MemDB; every cache flush = exactly one backend commit holding the complete new content"
func VerifH_C17_cache() {
	under := &recDB{inner: NewMemDB()}
	verifKVRun("cache", NewCacheDB(under), under, 4)
}

//verif:harness prop=C17 tier=thorough require=done bounds="as VerifH_C17_mem with sequences of 5 ops (6 ops with 1-byte values only ran 19 min clean before empty values were added)"
func VerifH_C17_mem5() {
	verifKVRun("mem", NewMemDB(), nil, 5)
}

//verif:harness prop=C17 tier=thorough require=done bounds="as VerifH_C17_cache with sequences of 5 ops (6 ops with 1-byte values only ran 19 min clean before empty values were added)"
func VerifH_C17_cache5() {
	under := &recDB{inner: NewMemDB()}
	verifKVRun("cache", NewCacheDB(under), under, 5)
}

// VerifH_C17_mem_long / cache_long: longer sessions over a narrower alphabet
// (one key): what a flush leaves pending only shows several operations later,
// e.g. put, flush, delete, flush, cancel.
//
//verif:harness prop=C17 tier=quick require=done bounds="1 bucket, 1 arbitrary key (a second one only read), arbitrary 1-byte values, every sequence of 7 ops from {put,delete,flush,cancel}, Get+Iter compared after every op"
func VerifH_C17_mem_long() {
	verifKVRunMode("mem", NewMemDB(), nil, 7, true)
}

//verif:harness prop=C17,C03 tier=quick require=done bounds="as VerifH_C17_mem_long, CacheDB over MemDB, with the backend's commits audited"
func VerifH_C17_cache_long() {
	under := &recDB{inner: NewMemDB()}
	verifKVRunMode("cache", NewCacheDB(under), under, 7, true)
}
