package chain

import (
	"iter"

	"go.sia.tech/core/consensus"
	"go.sia.tech/core/types"
	"go.sia.tech/coreutils/internal/vapi"
)

// recDB records every operation on the underlying MemDB and calls onFlush
// right after each commit.
type recDB struct {
	inner   *MemDB
	ops     []byte // 'p' put, 'd' delete, 'f' flush, 'c' cancel
	onFlush func()
	inAudit bool
	gen     int // number of commits/rollbacks so far
}

// A bucket handle belongs to the transaction it was obtained in: on the
// Bolt-backed database it dies with the next Flush or Cancel (bbolt panics or
// reads freed pages). The recorder holds every user of the DB interface to
// that discipline, so that what is decided over MemDB carries over to Bolt.
type recBucket struct {
	b   DBBucket
	db  *recDB
	gen int
}

func (b recBucket) live() {
	vapi.Assert("backend.bucket-handle-not-used-across-a-commit", b.gen == b.db.gen)
}
func (b recBucket) Get(key []byte) []byte { b.live(); return b.b.Get(key) }
func (b recBucket) Put(key, value []byte) error {
	b.live()
	b.db.ops = append(b.db.ops, 'p')
	return b.b.Put(key, value)
}
func (b recBucket) Delete(key []byte) error {
	b.live()
	b.db.ops = append(b.db.ops, 'd')
	return b.b.Delete(key)
}
func (b recBucket) Iter() iter.Seq2[[]byte, []byte] { b.live(); return b.b.Iter() }

func (db *recDB) Bucket(name []byte) DBBucket {
	b := db.inner.Bucket(name)
	if b == nil {
		return nil
	}
	return recBucket{b, db, db.gen}
}
func (db *recDB) CreateBucket(name []byte) (DBBucket, error) {
	b, err := db.inner.CreateBucket(name)
	if err != nil {
		return nil, err
	}
	return recBucket{b, db, db.gen}, nil
}
func (db *recDB) Flush() error {
	db.ops = append(db.ops, 'f')
	db.gen++
	err := db.inner.Flush()
	if db.onFlush != nil && !db.inAudit {
		db.inAudit = true
		db.onFlush()
		db.inAudit = false
	}
	return err
}
func (db *recDB) Cancel() { db.ops = append(db.ops, 'c'); db.gen++; db.inner.Cancel() }

// recStore wraps the real DBStore: it records the tips the node had and checks
// that within one ApplyBlock/RevertBlock a flush, if any, is the last write.
type recStore struct {
	*DBStore
	db   *recDB
	tips map[types.BlockID]bool
}

func (s *recStore) ApplyBlock(cs consensus.State, cau consensus.ApplyUpdate) {
	s.tips[cs.Index.ID] = true
	start := len(s.db.ops)
	s.DBStore.ApplyBlock(cs, cau)
	s.checkFlushLast("apply", start)
}

func (s *recStore) RevertBlock(cs consensus.State, cru consensus.RevertUpdate) {
	s.tips[cs.Index.ID] = true
	start := len(s.db.ops)
	s.DBStore.RevertBlock(cs, cru)
	s.checkFlushLast("revert", start)
}

func (s *recStore) checkFlushLast(tag string, start int) {
	ops := s.db.ops[start:]
	for i, op := range ops {
		if op == 'f' {
			vapi.Assert("flush-last."+tag, i == len(ops)-1)
			vapi.Reach("flushed-inside-" + tag)
		}
	}
	vapi.Assert("writes-something."+tag, len(ops) > 0)
}

// VerifH_C03_commit_points: every image the store commits (the size/time flush
// may fire after any single block apply or revert of a reorg: the clock is
// symbolic) reopens without error to a tip the node had, with best-chain
// index, height, state and block+supplement of that tip all inside the image.
//
//verif:harness prop=C03 tier=quick replay=interp clock=symbolic z3timeout=400 require=flushed-inside-apply,flushed-inside-revert,audited,failed-reorg bounds="main chain of 2 blocks, then a 2..3 block fork from genesis or height 1 whose last block may be invalid (failed reorg rolled back); time.Since symbolic at every shouldFlush"
func VerifH_C03_commit_points() { verifCommitPoints(false) }

// VerifH_C03_size_flush: the same audit with the other flush trigger. The
// number of bytes buffered since the last commit is an arbitrary value below
// the size threshold (whatever the earlier history wrote), so the size-based
// flush may fire at any block boundary of a one-block-deep reorg - and, as the
// recorder checks, nowhere inside a block.
//
//verif:harness prop=C03 tier=quick replay=interp clock=symbolic z3timeout=400 require=flushed-inside-apply,flushed-inside-revert,audited bounds="main chain of 1 block, then a 2 block fork from genesis; DBStore.unflushed symbolic in [0,100e6) before the reorg; time.Since symbolic at every shouldFlush"
func VerifH_C03_size_flush() { verifCommitPoints(true) }

func verifCommitPoints(size bool) {
	rdb := &recDB{inner: NewMemDB()}
	var rs *recStore
	c := newAbsChainOn(rdb, func(s Store) Store {
		rs = &recStore{DBStore: s.(*DBStore), db: rdb, tips: map[types.BlockID]bool{}}
		return rs
	})
	rs.tips[absID(0)] = true
	audits := 0
	rdb.onFlush = func() {
		audits++
		// reopen the committed image with a fresh store
		opsBefore := len(rdb.ops)
		st2, tip2, err := NewDBStore(rdb, c.n, c.genesis, nil)
		vapi.Assert("reopen.no-error", err == nil)
		if err != nil {
			return
		}
		vapi.Assert("reopen.writes-nothing", len(rdb.ops) == opsBefore)
		vapi.Assert("reopen.tip-was-a-tip", rs.tips[tip2.Index.ID])
		h := tip2.Index.Height
		for hh := uint64(0); hh <= h+1; hh++ {
			idx, ok := st2.BestIndex(hh)
			if hh > h {
				vapi.Assert("image.nothing-above-height", !ok)
				continue
			}
			vapi.Assert("image.index-present", ok)
			if hh > 0 {
				bh, hok := st2.Header(idx.ID)
				prev, _ := st2.BestIndex(hh - 1)
				vapi.Assert("image.linked", hok && bh.ParentID == prev.ID)
			}
			cs, sok := st2.State(idx.ID)
			vapi.Assert("image.state-present", sok && cs.Index == idx)
			if hh == h {
				vapi.Assert("image.tip-state", cs.Attestations == tip2.Attestations)
				_, bs, bok := st2.Block(idx.ID)
				vapi.Assert("image.tip-block-with-supplement", bok && bs != nil)
			}
		}
		vapi.Reach("audited")
	}
	main1 := c.newBlock(0, true)
	fp, n := uint64(0), 2
	if size {
		vapi.Assert("build.main", c.m.AddBlocks([]types.Block{main1}) == nil)
		u := vapi.U32("unflushed")
		vapi.Assume(u < 100e6)
		rs.DBStore.unflushed = int(u)
	} else {
		main2 := c.newBlock(main1.Nonce, true)
		vapi.Assert("build.main", c.m.AddBlocks([]types.Block{main1, main2}) == nil)
		if vapi.Bool("fork-at-1") {
			fp = main1.Nonce
		}
		n = vapi.Int("fork-len", 2, 3)
	}
	var fork []types.Block
	p := fp
	for i := 0; i < n; i++ {
		b := c.newBlock(p, true)
		if i == n-1 && !size {
			absW.bodyBad[b.Nonce] = vapi.Bool("last-invalid")
		}
		fork = append(fork, b)
		p = b.Nonce
	}
	pre := c.audit()
	err := c.m.AddBlocks(fork)
	if err != nil {
		vapi.Reach("failed-reorg")
		vapi.Assert("rollback", sameAudit(pre, c.audit()))
	}
	vapi.Assert("audited-at-least-once", audits > 0)
	// the final image is committed too: reorgTo ends with a flush
	if c.m.Tip() != pre.tip {
		last := rdb.ops[len(rdb.ops)-1]
		vapi.Assert("reorg-ends-flushed", last == 'f' || rs.DBStore.unflushed == 0)
	}
}

// VerifH_C03_init: the commits made while a store is created for the first
// time. Each committed image (the time-based flush inside the genesis
// ApplyBlock may or may not fire: symbolic clock) reopens either as
// "not initialised yet" - and is then initialised normally - or to the genesis
// tip with state and block present; never to a tip the node did not have.
//
//verif:harness prop=C03 tier=quick replay=interp clock=symbolic z3timeout=400 require=audited bounds="first-time initialisation of a DBStore over MemDB; time.Since symbolic at the flush check inside the genesis ApplyBlock"
func VerifH_C03_init() {
	newAbsWorld()
	n, genesis := absNetwork()
	rdb := &recDB{inner: NewMemDB()}
	gid := genesis.ID()
	rdb.onFlush = func() {
		vapi.Reach("audited")
		st2, tip2, err := NewDBStore(rdb, n, genesis, nil)
		vapi.Assert("init.reopen-no-error", err == nil)
		if err != nil {
			return
		}
		vapi.Assert("init.reopens-to-genesis", tip2.Index.ID == gid && tip2.Index.Height == 0)
		idx, ok := st2.BestIndex(0)
		vapi.Assert("init.genesis-indexed", ok && idx.ID == gid)
		_, bs, bok := st2.Block(gid)
		vapi.Assert("init.genesis-block-with-supplement", bok && bs != nil)
		cs, sok := st2.State(gid)
		vapi.Assert("init.genesis-state", sok && cs.Index.ID == gid)
	}
	_, tip, err := NewDBStore(rdb, n, genesis, nil)
	vapi.Assert("init.no-error", err == nil && tip.Index.ID == gid)
}
