package chain

import (
	"go.sia.tech/core/types"
	"go.sia.tech/coreutils/internal/vapi"
)

// poolWorld: manager at genesis+1 with a pool built through the real API:
// nV1 valid v1 transactions and nV2 valid v2 transactions (the second v2
// optionally a child of the first through an ephemeral output).
type poolWorld struct {
	c    *absChain
	v1   []types.Transaction
	v2   []types.V2Transaction
	next byte // next free confirmed parent number / tag
}

func newPoolWorld(maxV1, maxV2 int) *poolWorld {
	newAbsPool()
	w := &poolWorld{c: newAbsChain(), next: 1}
	b := w.c.newBlock(0, true)
	vapi.Assert("build.block", w.c.m.AddBlocks([]types.Block{b}) == nil)
	n1 := vapi.Int("poolV1", 0, maxV1)
	for i := 0; i < n1; i++ {
		t := newV1(w.tag(), w.parent())
		known, err := w.c.m.AddPoolTransactions([]types.Transaction{t})
		if err != nil {
			vapi.Log(err)
		}
		if known {
			vapi.Log("v1 known")
		}
		vapi.Assert("build.v1", err == nil && !known)
		w.v1 = append(w.v1, t)
	}
	n2 := vapi.Int("poolV2", 0, maxV2)
	for i := 0; i < n2; i++ {
		var t types.V2Transaction
		if i > 0 && vapi.Bool("child") {
			t = newV2(w.tag(), &w.v2[i-1])
		} else {
			t = newV2(w.tag(), nil, w.parent())
		}
		sub := []types.V2Transaction{t}
		// a child travels with its unconfirmed ancestors
		for j := i - 1; j >= 0 && len(sub[0].SiacoinInputs) > 0 && sub[0].SiacoinInputs[0].Parent.StateElement.LeafIndex == types.UnassignedLeafIndex; j-- {
			sub = append([]types.V2Transaction{w.v2[j]}, sub...)
		}
		known, err := w.c.m.AddV2PoolTransactions(w.c.m.Tip(), sub)
		if err != nil {
			vapi.Log(err)
		}
		vapi.Assert("build.v2", err == nil && !known)
		w.v2 = append(w.v2, t)
	}
	vapi.Assert("build.lists", sameIDs(v1ids(w.c.m.PoolTransactions()), v1ids(w.v1)) && sameIDs(v2ids(w.c.m.V2PoolTransactions()), v2ids(w.v2)))
	return w
}

func (w *poolWorld) tag() byte    { w.next++; return w.next }
func (w *poolWorld) parent() byte { w.next++; return w.next }

// VerifH_C14_lookup: lookup by any id (v1 id, v2 id, arbitrary).
//
//verif:harness prop=C14 tier=quick replay=interp z3timeout=400 require=found-v1,found-v2,absent bounds="pool of <=2 v1 + <=2 v2 transactions; lookup id arbitrary (256 symbolic bits)"
func VerifH_C14_lookup() {
	w := newPoolWorld(2, 2)
	id := types.TransactionID(vapi.Bytes32("id"))
	t1, ok1 := w.c.m.PoolTransaction(id)
	t2, ok2 := w.c.m.V2PoolTransaction(id)
	isV1, isV2 := false, false
	for _, t := range w.v1 {
		if t.ID() == id {
			isV1 = true
		}
	}
	for i := range w.v2 {
		if w.v2[i].ID() == id {
			isV2 = true
		}
	}
	vapi.Assert("lookup.v1-iff-pooled", ok1 == isV1)
	vapi.Assert("lookup.v2-iff-pooled", ok2 == isV2)
	if ok1 {
		vapi.Assert("lookup.v1-right-txn", t1.ID() == id)
		vapi.Reach("found-v1")
	}
	if ok2 {
		vapi.Assert("lookup.v2-right-txn", t2.ID() == id)
		vapi.Reach("found-v2")
	}
	if !ok1 && !ok2 {
		vapi.Reach("absent")
	}
}

// VerifH_C14_atomic: v2 submission is all-or-nothing, reports 'known' exactly
// when everything was pooled, and keeps no alias of the caller's memory.
//
//verif:harness prop=C14 tier=quick replay=interp z3timeout=400 require=accepted,rejected,known bounds="pool of <=1 v1 + <=2 v2; submitted set of 1..3 transactions each fresh / already pooled / spending an input a pooled transaction spends / fresh with a symbolic invalid-against-tip flag / with a symbolic invalid-proof flag"
func VerifH_C14_atomic() {
	w := newPoolWorld(1, 2)
	n := vapi.Int("set", 1, 3)
	var set []types.V2Transaction
	var standalone []bool // fresh, independent of the rest of the set
	allPooled := true
	nFresh := 0
	for i := 0; i < n; i++ {
		standalone = append(standalone, false)
		switch vapi.Int("kind", 0, 3) {
		case 0: // fresh, validity symbolic
			t := newV2(w.tag(), nil, w.parent())
			absTxBad(v2tag(t))
			absP.elemBad[v2tag(t)] = vapi.Bool("elemBad")
			set = append(set, t)
			allPooled = false
			nFresh++
			standalone[i] = true
		case 1: // already pooled
			if len(w.v2) == 0 {
				vapi.Assume(false)
			}
			set = append(set, w.v2[vapi.Int("which", 0, len(w.v2)-1)])
		case 2: // valid against the tip but conflicting with the pool
			if len(w.v2) == 0 || len(w.v2[0].SiacoinInputs) == 0 {
				vapi.Assume(false)
			}
			p := w.v2[0].SiacoinInputs[0].Parent.ID[0]
			set = append(set, newV2(w.tag(), nil, p))
			allPooled = false
		case 3: // child of the previous element of the set
			if i == 0 {
				vapi.Assume(false)
			}
			set = append(set, newV2(w.tag(), &set[i-1]))
			allPooled = false
			nFresh++
		}
	}
	pre1, pre2 := v1ids(w.c.m.PoolTransactions()), v2ids(w.c.m.V2PoolTransactions())
	setIDs := v2ids(set)
	known, err := w.c.m.AddV2PoolTransactions(w.c.m.Tip(), set)
	post1, post2 := v1ids(w.c.m.PoolTransactions()), v2ids(w.c.m.V2PoolTransactions())
	vapi.Assert("atomic.v1-untouched", sameIDs(pre1, post1))
	if err != nil {
		vapi.Reach("rejected")
		vapi.Assert("atomic.error-adds-nothing", sameIDs(pre2, post2))
		vapi.Assert("atomic.error-not-known", !known)
		// ... and leaves no trace: a member that is valid on its own is accepted
		// when it is submitted again alone
		for i := range set {
			if standalone[i] && !absP.txBad[v2tag(set[i])] && !absP.elemBad[v2tag(set[i])] {
				_, e := w.c.m.AddV2PoolTransactions(w.c.m.Tip(), []types.V2Transaction{set[i]})
				vapi.Assert("atomic.rejection-leaves-no-trace", e == nil)
				post2 = v2ids(w.c.m.V2PoolTransactions())
				break
			}
		}
	} else if known {
		vapi.Reach("known")
		vapi.Assert("atomic.known-iff-all-pooled", allPooled)
		vapi.Assert("atomic.known-adds-nothing", sameIDs(pre2, post2))
	} else {
		vapi.Reach("accepted")
		vapi.Assert("atomic.known-iff-all-pooled", !allPooled)
		// post = pre ++ the not-yet-pooled members, in order
		want := append([]types.TransactionID{}, pre2...)
		for _, id := range setIDs {
			dup := false
			for _, x := range want {
				if x == id {
					dup = true
				}
			}
			if !dup {
				want = append(want, id)
			}
		}
		vapi.Assert("atomic.accepted-appends-all", sameIDs(want, post2))
	}
	// no aliasing: scribble over the caller's memory and over returned values
	for i := range set {
		set[i].SiacoinOutputs[0].Value = types.NewCurrency64(7777)
		set[i].ArbitraryData[0] ^= 0xff
		for j := range set[i].SiacoinInputs {
			p := set[i].SiacoinInputs[j].Parent.StateElement.MerkleProof
			for k := range p {
				p[k][0] ^= 0xff
			}
		}
	}
	ret := w.c.m.V2PoolTransactions()
	for i := range ret {
		ret[i].SiacoinOutputs[0].Value = types.NewCurrency64(8888)
		for j := range ret[i].SiacoinInputs {
			p := ret[i].SiacoinInputs[j].Parent.StateElement.MerkleProof
			for k := range p {
				p[k][0] ^= 0xff
			}
		}
	}
	if len(ret) > 1 {
		ret[0], ret[1] = ret[1], ret[0]
	}
	again := w.c.m.V2PoolTransactions()
	vapi.Assert("alias.pool-unchanged", sameIDs(v2ids(again), post2))
	for i := range again {
		t, ok := w.c.m.V2PoolTransaction(post2[i])
		vapi.Assert("alias.lookup-consistent", ok && t.ID() == post2[i])
		for j := range again[i].SiacoinInputs {
			se := again[i].SiacoinInputs[j].Parent.StateElement
			if se.LeafIndex != types.UnassignedLeafIndex {
				vapi.Assert("alias.proof-unchanged", len(se.MerkleProof) == 1 && se.MerkleProof[0][0] == byte(se.LeafIndex))
			}
		}
	}
}

// VerifH_C14_atomic_v1: the v1 submission path: all-or-nothing, 'known'
// exactly when everything was pooled, and a rejection never removes what the
// pool held before.
//
//verif:harness prop=C14 tier=quick replay=interp z3timeout=400 require=accepted,rejected,known bounds="pool of 1..2 v1 (+<=1 v2) transactions; submitted set of 1..3 v1 transactions each fresh (symbolic validity) / already pooled / spending an input a pooled transaction spends"
func VerifH_C14_atomic_v1() {
	w := newPoolWorld(2, 1)
	if len(w.v1) == 0 {
		vapi.Assume(false)
	}
	n := vapi.Int("set", 1, 3)
	var set []types.Transaction
	fresh := make([]bool, n)
	allPooled := true
	for i := 0; i < n; i++ {
		switch vapi.Int("kind", 0, 2) {
		case 0: // fresh, validity symbolic
			t := newV1(w.tag(), w.parent())
			absTxBad(v1tag(t))
			set = append(set, t)
			fresh[i] = true
			allPooled = false
		case 1: // already pooled
			set = append(set, w.v1[vapi.Int("which", 0, len(w.v1)-1)])
		case 2: // valid against the tip but conflicting with the pool
			p := w.v1[0].SiacoinInputs[0].ParentID[0]
			set = append(set, newV1(w.tag(), p))
			allPooled = false
		}
	}
	pre1, pre2 := v1ids(w.c.m.PoolTransactions()), v2ids(w.c.m.V2PoolTransactions())
	setIDs := v1ids(set)
	known, err := w.c.m.AddPoolTransactions(set)
	post1, post2 := v1ids(w.c.m.PoolTransactions()), v2ids(w.c.m.V2PoolTransactions())
	vapi.Assert("atomic-v1.v2-untouched", sameIDs(pre2, post2))
	if err != nil {
		vapi.Reach("rejected")
		vapi.Assert("atomic-v1.error-changes-nothing", sameIDs(pre1, post1))
		vapi.Assert("atomic-v1.error-not-known", !known)
		for _, id := range pre1 {
			_, ok := w.c.m.PoolTransaction(id)
			vapi.Assert("atomic-v1.pooled-before-still-found", ok)
		}
		// ... and leaves no trace: a fresh member that is valid on its own is
		// accepted when it is submitted again alone
		for i := range set {
			if fresh[i] && !absP.txBad[v1tag(set[i])] {
				_, e := w.c.m.AddPoolTransactions([]types.Transaction{set[i]})
				vapi.Assert("atomic-v1.rejection-leaves-no-trace", e == nil)
				break
			}
		}
	} else if known {
		vapi.Reach("known")
		vapi.Assert("atomic-v1.known-iff-all-pooled", allPooled)
		vapi.Assert("atomic-v1.known-adds-nothing", sameIDs(pre1, post1))
	} else {
		vapi.Reach("accepted")
		vapi.Assert("atomic-v1.known-iff-all-pooled", !allPooled)
		want := append([]types.TransactionID{}, pre1...)
		for _, id := range setIDs {
			dup := false
			for _, x := range want {
				if x == id {
					dup = true
				}
			}
			if !dup {
				want = append(want, id)
			}
		}
		vapi.Assert("atomic-v1.accepted-appends-all", sameIDs(want, post1))
	}
}
