package chain

import (
	"go.sia.tech/core/types"
	"go.sia.tech/coreutils/internal/vapi"
)

// pathTo returns the nonces from block k down to (excluding) genesis.
func (c *absChain) ancestors(k uint64) []uint64 {
	var out []uint64
	for k != 0 {
		out = append(out, k)
		k = c.parent[k]
	}
	return out
}

// VerifH_C13_path: reorgPath between any two stored indices (or zero /
// unknown / wrong-height indices) with any length limit: exact contiguous
// paths through the common ancestor, error iff too long or unknown, never a
// panic.
//
//verif:harness prop=C13 tier=quick replay=interp z3timeout=400 require=path,too-long,unknown bounds="trees of <=2 main + <=2 side blocks; from/to any stored index, zero, unknown id, or a stored id with a wrong height; maxLen 0..4"
func VerifH_C13_path() { verifC13Path(2, 2, 4) }

//verif:harness prop=C13 tier=thorough replay=interp z3timeout=400 require=path,too-long,unknown bounds="trees of <=3 main + <=2 side blocks; maxLen 0..6"
func VerifH_C13_path3() { verifC13Path(3, 2, 6) }

func verifC13Path(maxMain, maxSide, maxMaxLen int) {
	c := newAbsChain()
	c.buildTree(maxMain, maxSide)
	from, fromKnown := c.pickIndex("from")
	to, toKnown := c.pickIndex("to")
	if vapi.Bool("skew-from") && from.Height > 0 {
		from.Height-- // a known id with a wrong height
		fromKnown = false
	}
	maxLen := vapi.Int("maxLen", 0, maxMaxLen)
	revert, apply, err := c.m.reorgPath(from, to, maxLen)
	if err != nil {
		if fromKnown && toKnown {
			vapi.Reach("too-long")
		} else {
			vapi.Reach("unknown")
		}
	}
	if !fromKnown || !toKnown || to == (types.ChainIndex{}) {
		// bogus input: only "no panic" and, on success, a bounded answer are required
		if err == nil {
			vapi.Assert("path.bounded", len(revert)+len(apply) <= maxLen+2)
		}
		return
	}
	// expected path from the harness's own parent map
	var wantRevert, wantApply []uint64
	fa := c.ancestors(absNonce(from.ID))
	ta := c.ancestors(absNonce(to.ID))
	if from == (types.ChainIndex{}) {
		fa = nil
	}
	// strip the common suffix
	for len(fa) > 0 && len(ta) > 0 && fa[len(fa)-1] == ta[len(ta)-1] {
		fa, ta = fa[:len(fa)-1], ta[:len(ta)-1]
	}
	wantRevert = fa
	for i := len(ta) - 1; i >= 0; i-- {
		wantApply = append(wantApply, ta[i])
	}
	genesisFirst := from == (types.ChainIndex{})
	if err == nil {
		vapi.Reach("path")
		vapi.Assert("path.bounded", len(revert)+len(apply) <= maxLen+1)
		vapi.Assert("path.revert-len", len(revert) == len(wantRevert))
		for i := range revert {
			if i < len(wantRevert) {
				vapi.Assert("path.revert", revert[i].ID == absID(wantRevert[i]) && revert[i].Height == c.height[wantRevert[i]])
			}
		}
		wa := wantApply
		if genesisFirst {
			vapi.Assert("path.genesis-first", len(apply) >= 1 && apply[0].ID == absID(0) && apply[0].Height == 0)
			if len(apply) >= 1 {
				apply = apply[1:]
			}
		}
		vapi.Assert("path.apply-len", len(apply) == len(wa))
		for i := range apply {
			if i < len(wa) {
				vapi.Assert("path.apply", apply[i].ID == absID(wa[i]) && apply[i].Height == c.height[wa[i]])
			}
		}
	} else {
		// an error between known indices means the path exceeds the limit
		vapi.Assert("path.error-only-when-too-long", len(wantRevert)+len(wantApply) > maxLen-1)
	}
}
