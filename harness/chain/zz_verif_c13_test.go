package chain

import (
	"go.sia.tech/core/types"
	"go.sia.tech/coreutils/internal/vapi"
)

// pathTo returns the nonces from block k down to (excluding) genesis.
func (c *absChain) ancestors(k uint64) []uint64 {
	var out []uint64
	for k != 0 {
		out = append(out, k)
		k = c.parent[k]
	}
	return out
}

// VerifH_C13_path: reorgPath between any two stored indices (or zero /
// unknown / wrong-height indices) with any length limit: exact contiguous
// paths through the common ancestor, error iff too long or unknown, never a
// panic.
//
//verif:harness prop=C13 tier=quick replay=interp z3timeout=400 require=path,too-long,unknown bounds="trees of <=2 main + <=2 side blocks; from/to any stored index, zero, unknown id, or a stored id with a wrong height; maxLen 0..4"
func VerifH_C13_path() { verifC13Path(2, 2, 4) }

//verif:harness prop=C13 tier=thorough replay=interp z3timeout=400 require=path,too-long,unknown bounds="trees of <=3 main + <=2 side blocks; maxLen 0..6"
func VerifH_C13_path3() { verifC13Path(3, 2, 6) }

func verifC13Path(maxMain, maxSide, maxMaxLen int) {
	c := newAbsChain()
	c.buildTree(maxMain, maxSide)
	from, fromKnown := c.pickIndex("from")
	to, toKnown := c.pickIndex("to")
	if vapi.Bool("skew-from") && from.Height > 0 {
		from.Height-- // a known id with a wrong height
		fromKnown = false
	}
	maxLen := vapi.Int("maxLen", 0, maxMaxLen)
	revert, apply, err := c.m.reorgPath(from, to, maxLen)
	if err != nil {
		if fromKnown && toKnown {
			vapi.Reach("too-long")
		} else {
			vapi.Reach("unknown")
		}
	}
	if !fromKnown || !toKnown || to == (types.ChainIndex{}) {
		// bogus input: only "no panic" and, on success, a bounded answer are required
		if err == nil {
			vapi.Assert("path.bounded", len(revert)+len(apply) <= maxLen+2)
		}
		return
	}
	// expected path from the harness's own parent map
	var wantRevert, wantApply []uint64
	fa := c.ancestors(absNonce(from.ID))
	ta := c.ancestors(absNonce(to.ID))
	if from == (types.ChainIndex{}) {
		fa = nil
	}
	// strip the common suffix
	for len(fa) > 0 && len(ta) > 0 && fa[len(fa)-1] == ta[len(ta)-1] {
		fa, ta = fa[:len(fa)-1], ta[:len(ta)-1]
	}
	wantRevert = fa
	for i := len(ta) - 1; i >= 0; i-- {
		wantApply = append(wantApply, ta[i])
	}
	genesisFirst := from == (types.ChainIndex{})
	if err == nil {
		vapi.Reach("path")
		vapi.Assert("path.bounded", len(revert)+len(apply) <= maxLen+1)
		vapi.Assert("path.revert-len", len(revert) == len(wantRevert))
		for i := range revert {
			if i < len(wantRevert) {
				vapi.Assert("path.revert", revert[i].ID == absID(wantRevert[i]) && revert[i].Height == c.height[wantRevert[i]])
			}
		}
		wa := wantApply
		if genesisFirst {
			vapi.Assert("path.genesis-first", len(apply) >= 1 && apply[0].ID == absID(0) && apply[0].Height == 0)
			if len(apply) >= 1 {
				apply = apply[1:]
			}
		}
		vapi.Assert("path.apply-len", len(apply) == len(wa))
		for i := range apply {
			if i < len(wa) {
				vapi.Assert("path.apply", apply[i].ID == absID(wa[i]) && apply[i].Height == c.height[wa[i]])
			}
		}
	} else {
		// an error between known indices means the path exceeds the limit
		vapi.Assert("path.error-only-when-too-long", len(wantRevert)+len(wantApply) > maxLen-1)
	}
}

// ---- rebasing transaction sets ---------------------------------------------

// VerifH_C13_rebase: UpdateV2TransactionSet between two indices of a small
// fork tree: survivors keep their order, confirmed members disappear, every
// non-ephemeral proof ends up referring to the target, an ephemeral input whose
// parent was confirmed on the way becomes that element, invalid proofs /
// unknown bases / vanished elements give an error and never a panic.
//
//verif:harness prop=C13 tier=quick replay=interp z3timeout=400 require=rebased,rejected-proof,vanished bounds="chain b0 <- b1 <- b2 (b1 confirms P or nothing) and a fork b0 <- f1; set [X, P, C child of P] or [X, C] without the parent (+ optionally Y spending an output created in b1); from/to in {b0,b1,b2,f1}; symbolic invalid-proof flags"
func VerifH_C13_rebase() {
	newAbsPool()
	w := &poolWorld{c: newAbsChain(), next: 1}
	c := w.c
	b0 := c.newBlock(0, true)
	vapi.Assert("build.block", c.m.AddBlocks([]types.Block{b0}) == nil)
	x := newV2(w.tag(), nil, w.parent())
	p := newV2(w.tag(), nil, w.parent())
	// the child spends P's output, alone or after a long-confirmed input
	var ch types.V2Transaction
	if vapi.Bool("child-has-a-confirmed-input-first") {
		ch = newV2(w.tag(), &p, w.parent())
	} else {
		ch = newV2(w.tag(), &p)
	}
	confirm := vapi.Bool("confirm-parent")
	var b1 types.Block
	if confirm {
		b1 = w.v2Block(p)
	} else {
		b1 = w.v2Block()
	}
	vapi.Assert("build.b1", c.m.AddBlocks([]types.Block{b1}) == nil && c.m.Tip().ID == b1.ID())
	b2 := w.v2Block()
	vapi.Assert("build.b2", c.m.AddBlocks([]types.Block{b2}) == nil && c.m.Tip().ID == b2.ID())
	// a stale one-block fork on b0 that was applied once: make it the tip
	// first? (kept simple: the fork is only a target/basis when it has a supplement)
	idx := func(b types.Block) types.ChainIndex { return types.ChainIndex{Height: c.height[b.Nonce], ID: b.ID()} }
	cands := []types.Block{b0, b1, b2}
	from := cands[vapi.Int("from", 0, 2)]
	to := cands[vapi.Int("to", 0, 2)]
	set := []types.V2Transaction{x, p, ch}
	withY := false
	if confirm && from.Nonce != b0.Nonce && vapi.Bool("with-created") {
		// Y spends the output P created in b1: valid at b1/b2 only
		y := newV2(w.tag(), nil)
		sces, _ := absBlockDiffs(b1, absLeafBase+1)
		for _, d := range sces {
			if d.Created {
				y.SiacoinInputs = append(y.SiacoinInputs, types.V2SiacoinInput{Parent: d.SiacoinElement.Copy(), SatisfiedPolicy: types.SatisfiedPolicy{Policy: types.AnyoneCanSpend()}})
				break
			}
		}
		set = []types.V2Transaction{x, y}
		withY = true
	} else if from.Nonce != b0.Nonce && confirm {
		// P is confirmed at the basis: a set valid there cannot contain it
		set = []types.V2Transaction{x}
	} else if vapi.Bool("child-without-its-parent") {
		// the child is rebased on its own (the RHP4 host rebases only the
		// renter's transaction; a child is re-submitted alone with its old basis)
		set = []types.V2Transaction{x, ch}
	}
	for i := range set {
		absP.elemBad[v2tag(set[i])] = vapi.Bool("elemBad")
	}
	anyBad := false
	for i := range set {
		anyBad = anyBad || absP.elemBad[v2tag(set[i])]
	}
	in := make([]types.V2Transaction, len(set))
	for i := range set {
		in[i] = set[i].DeepCopy()
	}
	out, err := c.m.UpdateV2TransactionSet(in, idx(from), idx(to))
	if from.Nonce == to.Nonce {
		vapi.Assert("rebase.same-index-identity", err == nil && sameIDs(v2ids(out), v2ids(set)))
		return
	}
	if anyBad {
		vapi.Assert("rebase.invalid-proof-rejected", err != nil)
		vapi.Reach("rejected-proof")
		return
	}
	if withY && c.height[to.Nonce] < c.height[b1.Nonce] {
		// the element Y spends does not exist at the target
		vapi.Assert("rebase.vanished-element-rejected", err != nil)
		vapi.Reach("vanished")
		return
	}
	vapi.Assert("rebase.no-error", err == nil)
	if err != nil {
		return
	}
	vapi.Reach("rebased")
	// survivors: members not confirmed by blocks applied on the way
	var want []types.TransactionID
	applied := c.height[to.Nonce] > c.height[from.Nonce]
	for i := range set {
		if applied && confirm && set[i].ID() == p.ID() && c.height[from.Nonce] < c.height[b1.Nonce] && c.height[to.Nonce] >= c.height[b1.Nonce] {
			continue
		}
		want = append(want, set[i].ID())
	}
	vapi.Assert("rebase.survivors-in-order", sameIDs(v2ids(out), want))
	for i := range out {
		for j, sci := range out[i].SiacoinInputs {
			se := sci.Parent.StateElement
			wasEph := false
			for k := range set {
				if set[k].ID() == out[i].ID() {
					wasEph = set[k].SiacoinInputs[j].Parent.StateElement.LeafIndex == types.UnassignedLeafIndex
				}
			}
			pConfirmedOnPath := applied && confirm && c.height[from.Nonce] < c.height[b1.Nonce] && c.height[to.Nonce] >= c.height[b1.Nonce]
			switch {
			case wasEph && pConfirmedOnPath:
				vapi.Assert("rebase.ephemeral-became-element", se.LeafIndex != types.UnassignedLeafIndex && se.LeafIndex > absLeafBase)
			case wasEph:
				vapi.Assert("rebase.ephemeral-stays", se.LeafIndex == types.UnassignedLeafIndex)
			case se.LeafIndex < absLeafBase:
				// a long-confirmed element: its proof now refers to the target
				vapi.Assert("rebase.proof-at-target", len(se.MerkleProof) == 1 && se.MerkleProof[0][0] == byte(to.Nonce))
			}
		}
	}
}

// VerifH_C13_set: V2TransactionSet returns the pooled unconfirmed ancestors
// before their children (any dependency shape over <=3 ancestors), the
// transaction last, a basis equal to the tip, and memory that does not alias
// the pool.
//
//verif:harness prop=C13,C14 tier=quick replay=interp z3timeout=400 require=chain,diamond,independent bounds="pool of 3 v2 transactions in shapes {independent, chain g->p->c, diamond a->b with txn spending a.out then b.out, deep chain}; basis = tip"
func VerifH_C13_set() {
	newAbsPool()
	w := &poolWorld{c: newAbsChain(), next: 1}
	c := w.c
	b0 := c.newBlock(0, true)
	vapi.Assert("build.block", c.m.AddBlocks([]types.Block{b0}) == nil)
	tip := c.m.Tip()
	add := func(ts ...types.V2Transaction) {
		_, err := c.m.AddV2PoolTransactions(tip, ts)
		vapi.Assert("build.pool", err == nil)
	}
	var txn types.V2Transaction
	var ancestors []types.V2Transaction // in pool order
	switch vapi.Int("shape", 0, 3) {
	case 0: // independent
		a := newV2(w.tag(), nil, w.parent())
		add(a)
		txn = newV2(w.tag(), nil, w.parent())
		vapi.Reach("independent")
	case 1: // chain g -> p -> c -> txn
		g := newV2(w.tag(), nil, w.parent())
		p := newV2(w.tag(), &g)
		ch := newV2(w.tag(), &p)
		add(g, p, ch)
		txn = newV2(w.tag(), &ch)
		ancestors = []types.V2Transaction{g, p, ch}
		vapi.Reach("chain")
	case 2: // diamond: a -> b ; txn spends a.out1 then b.out0
		a := newV2(w.tag(), nil, w.parent())
		a.SiacoinOutputs = append(a.SiacoinOutputs, types.SiacoinOutput{Value: types.NewCurrency64(9), Address: types.VoidAddress})
		b := newV2(w.tag(), &a)
		add(a, b)
		txn = newV2(w.tag(), nil)
		for _, in := range []types.SiacoinElement{a.EphemeralSiacoinOutput(1), b.EphemeralSiacoinOutput(0)} {
			txn.SiacoinInputs = append(txn.SiacoinInputs, types.V2SiacoinInput{Parent: in, SatisfiedPolicy: types.SatisfiedPolicy{Policy: types.AnyoneCanSpend()}})
		}
		ancestors = []types.V2Transaction{a, b}
		vapi.Reach("diamond")
	case 3: // two parents, unrelated to each other, plus an unrelated pooled txn
		a := newV2(w.tag(), nil, w.parent())
		u := newV2(w.tag(), nil, w.parent())
		b := newV2(w.tag(), nil, w.parent())
		add(a)
		add(u)
		add(b)
		txn = newV2(w.tag(), nil)
		for _, in := range []types.SiacoinElement{b.EphemeralSiacoinOutput(0), a.EphemeralSiacoinOutput(0)} {
			txn.SiacoinInputs = append(txn.SiacoinInputs, types.V2SiacoinInput{Parent: in, SatisfiedPolicy: types.SatisfiedPolicy{Policy: types.AnyoneCanSpend()}})
		}
		ancestors = []types.V2Transaction{a, b}
	}
	poolBefore := v2ids(c.m.V2PoolTransactions())
	basis, set, err := c.m.V2TransactionSet(tip, txn)
	vapi.Assert("set.no-error", err == nil)
	vapi.Assert("set.basis-is-tip", basis == c.m.Tip())
	vapi.Assert("set.size", len(set) == len(ancestors)+1)
	if len(set) == len(ancestors)+1 {
		vapi.Assert("set.txn-last", set[len(set)-1].ID() == txn.ID())
		// every pooled ancestor is present
		for _, a := range ancestors {
			found := false
			for i := range set {
				found = found || set[i].ID() == a.ID()
			}
			vapi.Assert("set.all-ancestors", found)
		}
		// parents before children: every ephemeral input is created earlier in the set
		for i := range set {
			for _, sci := range set[i].SiacoinInputs {
				if sci.Parent.StateElement.LeafIndex != types.UnassignedLeafIndex {
					continue
				}
				ok := false
				for j := 0; j < i; j++ {
					for k := range set[j].SiacoinOutputs {
						ok = ok || set[j].SiacoinOutputID(set[j].ID(), k) == sci.Parent.ID
					}
				}
				vapi.Assert("set.parents-first", ok)
			}
		}
		// the set is accepted by a fresh pool (here: the same pool reports it known)
		known, err := c.m.AddV2PoolTransactions(basis, set[:len(set)-1])
		vapi.Assert("set.parents-resubmittable", err == nil && (known || len(set) == 1))
	}
	// no aliasing of pool memory
	for i := range set {
		if len(set[i].SiacoinOutputs) > 0 {
			set[i].SiacoinOutputs[0].Value = types.NewCurrency64(4242)
		}
		set[i].ArbitraryData[0] ^= 0xff
	}
	vapi.Assert("set.no-alias", sameIDs(v2ids(c.m.V2PoolTransactions()), poolBefore))
}

// VerifH_C13_rebase_staggered: members of the set are confirmed in different
// blocks along the path: exactly the members no block on the way confirmed
// survive, in order, each with a proof at the target.
//
//verif:harness prop=C13 tier=quick replay=interp z3timeout=400 require=rebased bounds="chain b0 <- b1 <- b2 <- b3; set of three independent transactions, each confirmed in b1, b2, b3 (one per block) or never; rebase from b0 to b1..b3"
func VerifH_C13_rebase_staggered() {
	newAbsPool()
	w := &poolWorld{c: newAbsChain(), next: 1}
	c := w.c
	b0 := c.newBlock(0, true)
	vapi.Assert("build.block", c.m.AddBlocks([]types.Block{b0}) == nil)
	var set []types.V2Transaction
	var where []int // 1..3: confirmed in that block; 0: never
	for k := 0; k < 3; k++ {
		// leaf numbers 5, 9, 13: with the abstract one-hash proofs only leaves
		// whose second bit is clear survive the block codec's multiproof
		set = append(set, newV2(byte(20+k), nil, byte(5+4*k)))
		where = append(where, vapi.Int("confirmed-in", 0, 3))
	}
	w.next = 25
	// a fourth member, never confirmed, that references every other kind of
	// element a v2 transaction can carry: a siafund input, a revised contract
	// and a resolved contract (all proofs must be moved, not only siacoin ones)
	rich := newV2(24, nil, 17)
	mkSE := func(leaf uint64) types.StateElement {
		return types.StateElement{LeafIndex: leaf, MerkleProof: []types.Hash256{{byte(leaf)}}}
	}
	rich.SiafundInputs = []types.V2SiafundInput{{Parent: types.SiafundElement{ID: types.SiafundOutputID{0x5f}, StateElement: mkSE(21)}}}
	rich.FileContractRevisions = []types.V2FileContractRevision{{Parent: types.V2FileContractElement{ID: types.FileContractID{0xc1}, StateElement: mkSE(25)}}}
	rich.FileContractResolutions = []types.V2FileContractResolution{{Parent: types.V2FileContractElement{ID: types.FileContractID{0xc2}, StateElement: mkSE(29)}, Resolution: &types.V2FileContractExpiration{}}}
	set = append(set, rich)
	where = append(where, 0)
	// one transaction per block at most: the abstract one-hash proofs do not
	// survive the block codec's multiproof compression of several inputs
	for a := 0; a < 3; a++ {
		for b := a + 1; b < 3; b++ {
			vapi.Assume(where[a] == 0 || where[a] != where[b])
		}
	}
	blocks := []types.Block{b0}
	for h := 1; h <= 3; h++ {
		var txns []types.V2Transaction
		for k := range set {
			if where[k] == h {
				txns = append(txns, set[k])
			}
		}
		b := w.v2Block(txns...)
		vapi.Assert("build.chain", c.m.AddBlocks([]types.Block{b}) == nil && c.m.Tip().ID == b.ID())
		blocks = append(blocks, b)
	}
	idx := func(b types.Block) types.ChainIndex { return types.ChainIndex{Height: c.height[b.Nonce], ID: b.ID()} }
	to := vapi.Int("to", 1, 3)
	in := make([]types.V2Transaction, len(set))
	for i := range set {
		in[i] = set[i].DeepCopy()
	}
	out, err := c.m.UpdateV2TransactionSet(in, idx(b0), idx(blocks[to]))
	vapi.Assert("staggered.no-error", err == nil)
	if err != nil {
		return
	}
	vapi.Reach("rebased")
	var want []types.TransactionID
	for k := range set {
		if where[k] == 0 || where[k] > to {
			want = append(want, set[k].ID())
		}
	}
	vapi.Assert("staggered.exactly-the-unconfirmed-survive-in-order", sameIDs(v2ids(out), want))
	atTarget := func(se types.StateElement) bool {
		return len(se.MerkleProof) == 1 && se.MerkleProof[0][0] == byte(blocks[to].Nonce) && se.MerkleProof[0][2] == 0
	}
	for i := range out {
		for _, sci := range out[i].SiacoinInputs {
			vapi.Assert("staggered.proof-at-target", atTarget(sci.Parent.StateElement))
		}
		for _, sfi := range out[i].SiafundInputs {
			vapi.Assert("staggered.siafund-proof-at-target", atTarget(sfi.Parent.StateElement))
		}
		for _, rev := range out[i].FileContractRevisions {
			vapi.Assert("staggered.revision-parent-proof-at-target", atTarget(rev.Parent.StateElement))
		}
		for _, res := range out[i].FileContractResolutions {
			vapi.Assert("staggered.resolution-parent-proof-at-target", atTarget(res.Parent.StateElement))
		}
	}
}
