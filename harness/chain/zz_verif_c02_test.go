package chain

import (
	"bytes"
	"sort"

	"go.sia.tech/core/consensus"
	"go.sia.tech/core/types"
	"go.sia.tech/coreutils/internal/vapi"
)

// dumpBucket returns the visible (flushed or not) content of a bucket, sorted by key.
func dumpBucket(db DB, name []byte) [][2][]byte {
	var out [][2][]byte
	b := db.Bucket(name)
	if b == nil {
		return nil
	}
	for k, v := range b.Iter() {
		if len(k) == 8 && len(v) == 0 {
			// an expiration list that became empty is served exactly like an
			// absent one (ExpiringFileContractIDs, SupplementTipBlock)
			continue
		}
		out = append(out, [2][]byte{append([]byte(nil), k...), append([]byte(nil), v...)})
	}
	sort.Slice(out, func(i, j int) bool { return bytes.Compare(out[i][0], out[j][0]) < 0 })
	return out
}

func sameDump(a, b [][2][]byte) bool {
	if len(a) != len(b) {
		return false
	}
	for i := range a {
		if !bytes.Equal(a[i][0], b[i][0]) || !bytes.Equal(a[i][1], b[i][1]) {
			return false
		}
	}
	return true
}

// sameDumpModuloListOrder: equal key sets; element records equal; expiration
// lists (8-byte keys) equal as multisets of 32-byte ids.
func sameDumpModuloListOrder(a, b [][2][]byte) bool {
	if len(a) != len(b) {
		return false
	}
	for i := range a {
		if !bytes.Equal(a[i][0], b[i][0]) {
			return false
		}
		if len(a[i][0]) != 8 {
			if !bytes.Equal(a[i][1], b[i][1]) {
				return false
			}
			continue
		}
		if len(a[i][1]) != len(b[i][1]) {
			return false
		}
		for x := 0; x < len(a[i][1]); x += 32 {
			n1, n2 := 0, 0
			for y := 0; y < len(a[i][1]); y += 32 {
				if bytes.Equal(a[i][1][x:x+32], a[i][1][y:y+32]) {
					n1++
				}
				if bytes.Equal(a[i][1][x:x+32], b[i][1][y:y+32]) {
					n2++
				}
			}
			if n1 != n2 {
				return false
			}
		}
	}
	return true
}

func mkApply(sces []consensus.SiacoinElementDiff, sfes []consensus.SiafundElementDiff, fces []consensus.FileContractElementDiff) consensus.ApplyUpdate {
	var au consensus.ApplyUpdate
	vapi.SetField(&au, "sces", sces)
	vapi.SetField(&au, "sfes", sfes)
	vapi.SetField(&au, "fces", fces)
	return au
}

// mkRevert builds the revert update of the same block: core reverses every list.
func mkRevert(sces []consensus.SiacoinElementDiff, sfes []consensus.SiafundElementDiff, fces []consensus.FileContractElementDiff) consensus.RevertUpdate {
	var ru consensus.RevertUpdate
	r1 := append([]consensus.SiacoinElementDiff(nil), sces...)
	for i, j := 0, len(r1)-1; i < j; i, j = i+1, j-1 {
		r1[i], r1[j] = r1[j], r1[i]
	}
	r2 := append([]consensus.SiafundElementDiff(nil), sfes...)
	for i, j := 0, len(r2)-1; i < j; i, j = i+1, j-1 {
		r2[i], r2[j] = r2[j], r2[i]
	}
	r3 := append([]consensus.FileContractElementDiff(nil), fces...)
	for i, j := 0, len(r3)-1; i < j; i, j = i+1, j-1 {
		r3[i], r3[j] = r3[j], r3[i]
	}
	vapi.SetField(&ru, "sces", r1)
	vapi.SetField(&ru, "sfes", r2)
	vapi.SetField(&ru, "fces", r3)
	return ru
}

func scElem(k int, v uint64) types.SiacoinElement {
	return types.SiacoinElement{ID: types.SiacoinOutputID{byte(k + 1), 0x5c}, StateElement: types.StateElement{LeafIndex: uint64(k)},
		SiacoinOutput: types.SiacoinOutput{Value: types.NewCurrency64(v), Address: types.Address{byte(k)}}, MaturityHeight: uint64(k)}
}

func sfElem(k int, v uint64) types.SiafundElement {
	return types.SiafundElement{ID: types.SiafundOutputID{byte(k + 1), 0x5f}, StateElement: types.StateElement{LeafIndex: uint64(10 + k)},
		SiafundOutput: types.SiafundOutput{Value: v, Address: types.Address{byte(k)}}, ClaimStart: types.NewCurrency64(uint64(k))}
}

func fcElem(k int, windowEnd uint64, rev uint64) types.FileContractElement {
	return types.FileContractElement{ID: types.FileContractID{byte(k + 1), 0xfc}, StateElement: types.StateElement{LeafIndex: uint64(20 + k)},
		FileContract: types.FileContract{Filesize: uint64(k), WindowStart: windowEnd - 1, WindowEnd: windowEnd, RevisionNumber: rev,
			Payout: types.NewCurrency64(uint64(100 + k))}}
}

// VerifH_C02_inverse: on the real DBStore/MemDB/codec, reverting a block's
// element diffs after applying them restores every element bucket exactly
// (expiration lists: as sets; exact order is a separate obligation).
//
//verif:harness prop=C02 tier=quick replay=native require=roundtrip bounds="pre-store of 1 siacoin, 1 siafund, 2..3 contract elements (two expiration heights); one block with 1..2 diffs from {siacoin created/spent/ephemeral, siafund created/spent, contract created / revised with or without window change / resolved valid or missed / created+resolved}; element values symbolic"
func VerifH_C02_inverse() { verifC02Inverse(2) }

//verif:harness prop=C02 tier=thorough replay=native require=roundtrip bounds="as VerifH_C02_inverse with 1..3 diffs per block"
func VerifH_C02_inverse3() { verifC02Inverse(3) }

func verifC02Inverse(maxDiffs int) {
	c := newAbsChain()
	st := c.store
	// ---- pre-state through the real applyElements
	nSC, nSF := 1, 1
	nFC := vapi.Int("pre-fc", 2, 3)
	var preSC []consensus.SiacoinElementDiff
	var preSF []consensus.SiafundElementDiff
	var preFC []consensus.FileContractElementDiff
	val := vapi.UBits("value", 32)
	for k := 0; k < nSC; k++ {
		preSC = append(preSC, consensus.SiacoinElementDiff{SiacoinElement: scElem(k, val+uint64(k)), Created: true})
	}
	for k := 0; k < nSF; k++ {
		preSF = append(preSF, consensus.SiafundElementDiff{SiafundElement: sfElem(k, val), Created: true})
	}
	heights := []uint64{30, 40}
	fcWindow := make([]uint64, nFC)
	for k := 0; k < nFC; k++ {
		fcWindow[k] = heights[0]
		if k == nFC-1 {
			fcWindow[k] = heights[vapi.Int("pre-fc-window", 0, 1)]
		}
		preFC = append(preFC, consensus.FileContractElementDiff{FileContractElement: fcElem(k, fcWindow[k], 1), Created: true})
	}
	st.applyElements(mkApply(preSC, preSF, preFC))
	names := [][]byte{bSiacoinElements, bSiafundElements, bFileContractElements}
	var before [3][][2][]byte
	for i, n := range names {
		before[i] = dumpBucket(c.db, n)
	}
	// ---- one block of diffs
	var sces []consensus.SiacoinElementDiff
	var sfes []consensus.SiafundElementDiff
	var fces []consensus.FileContractElementDiff
	usedSC, usedSF, usedFC := map[int]bool{}, map[int]bool{}, map[int]bool{}
	orderSensitive := false
	nd := vapi.Int("diffs", 1, maxDiffs)
	for d := 0; d < nd; d++ {
		switch vapi.Int("kind", 0, 9) {
		case 0:
			sces = append(sces, consensus.SiacoinElementDiff{SiacoinElement: scElem(5+d, val), Created: true})
		case 1:
			if nSC == 0 {
				vapi.Assume(false)
			}
			k := vapi.Int("which-sc", 0, nSC-1)
			vapi.Assume(!usedSC[k])
			usedSC[k] = true
			sces = append(sces, consensus.SiacoinElementDiff{SiacoinElement: preSC[k].SiacoinElement.Copy(), Spent: true})
		case 2:
			sces = append(sces, consensus.SiacoinElementDiff{SiacoinElement: scElem(5+d, val), Created: true, Spent: true})
		case 3:
			sfes = append(sfes, consensus.SiafundElementDiff{SiafundElement: sfElem(5+d, val), Created: true})
		case 4:
			if nSF == 0 {
				vapi.Assume(false)
			}
			vapi.Assume(!usedSF[0])
			usedSF[0] = true
			sfes = append(sfes, consensus.SiafundElementDiff{SiafundElement: preSF[0].SiafundElement.Copy(), Spent: true})
		case 5:
			fces = append(fces, consensus.FileContractElementDiff{FileContractElement: fcElem(5+d, heights[vapi.Int("new-fc-window", 0, 1)], 1), Created: true})
		case 6, 7: // revised, without (6) or with (7) a window change
			if nFC == 0 {
				vapi.Assume(false)
			}
			k := vapi.Int("which-fc", 0, nFC-1)
			vapi.Assume(!usedFC[k])
			usedFC[k] = true
			rev := preFC[k].FileContractElement.FileContract
			rev.RevisionNumber = 2
			rev.Filesize = 99
			if d == d && preFC[k].FileContractElement.ID != (types.FileContractID{}) {
				// (the kind is read again below)
			}
			fces = append(fces, consensus.FileContractElementDiff{FileContractElement: preFC[k].FileContractElement.Copy(), Revision: &rev})
		case 8: // resolved
			if nFC == 0 {
				vapi.Assume(false)
			}
			k := vapi.Int("which-fc", 0, nFC-1)
			vapi.Assume(!usedFC[k])
			usedFC[k] = true
			fces = append(fces, consensus.FileContractElementDiff{FileContractElement: preFC[k].FileContractElement.Copy(), Resolved: true, Valid: vapi.Bool("valid")})
			orderSensitive = true
		case 9:
			fces = append(fces, consensus.FileContractElementDiff{FileContractElement: fcElem(5+d, 30, 1), Created: true, Resolved: true})
		}
	}
	// window-changing revisions: flip the window of every revised contract when asked
	if vapi.Bool("revisions-change-window") {
		for i := range fces {
			if fces[i].Revision != nil {
				if fces[i].Revision.WindowEnd == 30 {
					fces[i].Revision.WindowEnd = 40
				} else {
					fces[i].Revision.WindowEnd = 30
				}
				orderSensitive = true
			}
		}
	}
	// reference model of the expiration lists under the order rules the store
	// documents: append when applying, swap-remove when deleting, prepend when
	// a revert restores an entry (chain/db.go putFileContractExpiration)
	model := map[uint64][]types.FileContractID{}
	for k := range preFC {
		model[fcWindow[k]] = append(model[fcWindow[k]], preFC[k].FileContractElement.ID)
	}
	swapRemove := func(h uint64, id types.FileContractID) {
		l := model[h]
		for i := range l {
			if l[i] == id {
				l[i] = l[len(l)-1]
				model[h] = l[:len(l)-1]
				return
			}
		}
	}
	prepend := func(h uint64, id types.FileContractID) {
		model[h] = append([]types.FileContractID{id}, model[h]...)
	}
	for _, d := range fces {
		id, we := d.FileContractElement.ID, d.FileContractElement.FileContract.WindowEnd
		switch {
		case d.Created && d.Resolved:
		case d.Resolved:
			swapRemove(we, id)
		case d.Revision != nil:
			if d.Revision.WindowEnd != we {
				swapRemove(we, id)
				model[d.Revision.WindowEnd] = append(model[d.Revision.WindowEnd], id)
			}
		default:
			model[we] = append(model[we], id)
		}
	}
	for i := len(fces) - 1; i >= 0; i-- {
		d := fces[i]
		id, we := d.FileContractElement.ID, d.FileContractElement.FileContract.WindowEnd
		switch {
		case d.Created && d.Resolved:
		case d.Resolved:
			prepend(we, id)
		case d.Revision != nil:
			if d.Revision.WindowEnd != we {
				swapRemove(d.Revision.WindowEnd, id)
				prepend(we, id)
			}
		default:
			swapRemove(we, id)
		}
	}
	st.applyElements(mkApply(sces, sfes, fces))
	// revision-restore needs the stored record to be the revised one now
	for i := range fces {
		if fces[i].Revision != nil && !fces[i].Resolved {
			var got types.FileContractElement
			ok := st.bucket(bFileContractElements).get(fces[i].FileContractElement.ID[:], &got)
			vapi.Assert("apply.revision-stored", ok && got.FileContract.RevisionNumber == 2 && got.FileContract.WindowEnd == fces[i].Revision.WindowEnd)
		}
	}
	st.revertElements(mkRevert(sces, sfes, fces))
	for i, n := range names {
		after := dumpBucket(c.db, n)
		vapi.Assert("inverse.elements-and-expiration-sets", sameDumpModuloListOrder(before[i], after))
		if !orderSensitive {
			vapi.Assert("inverse.exact-bytes", sameDump(before[i], after))
		} else {
			// exact order after reverting a resolution / window change depends on
			// history: open known finding (documented upstream)
			vapi.Assert("exp-order.after-resolution-or-window-change", sameDump(before[i], after))
		}
	}
	// whatever the history-dependence (known finding above), the order after a
	// revert is the one the documented rules give: any other order is new
	for _, h := range heights {
		got := st.ExpiringFileContractIDs(h)
		want := model[h]
		same := len(got) == len(want)
		for i := 0; same && i < len(got); i++ {
			same = got[i] == want[i]
		}
		vapi.Assert("exp-order.follows-the-documented-rules", same)
	}
	vapi.Reach("roundtrip")
}

// VerifH_C02_require_height: element buckets are touched iff the block height
// is at or below the v2 require height; the index and height always are.
//
//verif:harness prop=C02 tier=quick replay=native require=below,above bounds="one created siacoin element applied and reverted at heights 199..201 around RequireHeight=200"
func VerifH_C02_require_height() {
	c := newAbsChain()
	st := c.store
	h := uint64(vapi.Int("height", 199, 201))
	cs := consensus.State{Network: c.n, Index: types.ChainIndex{Height: h, ID: types.BlockID{1}}}
	sces := []consensus.SiacoinElementDiff{{SiacoinElement: scElem(1, 5), Created: true}}
	before := dumpBucket(c.db, bSiacoinElements)
	st.ApplyBlock(cs, mkApply(sces, nil, nil))
	after := dumpBucket(c.db, bSiacoinElements)
	idx, ok := st.BestIndex(h)
	vapi.Assert("require.index-always", ok && idx == cs.Index && st.getHeight() == h)
	if h <= 200 {
		vapi.Reach("below")
		vapi.Assert("require.elements-below", len(after) == len(before)+1)
	} else {
		vapi.Reach("above")
		vapi.Assert("require.no-elements-above", sameDump(before, after))
	}
	prev := consensus.State{Network: c.n, Index: types.ChainIndex{Height: h - 1, ID: types.BlockID{2}}}
	st.RevertBlock(prev, mkRevert(sces, nil, nil))
	_, ok = st.BestIndex(h)
	vapi.Assert("require.revert-index", !ok && st.getHeight() == h-1)
	final := dumpBucket(c.db, bSiacoinElements)
	if h-1 <= 200 {
		vapi.Assert("require.revert-elements", len(final) == len(after)-1 || h == 201)
	}
}
