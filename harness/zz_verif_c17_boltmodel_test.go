package coreutils

// Native validation of the bbolt contract model used by VerifH_C17_bolt*: the
// same pseudo-random operation sequences are pushed through the real
// go.etcd.io/bbolt (a file in a temporary directory) and through the model's
// stub functions, and every observable result is compared. Run natively:
//   go test -overlay <overlay.json> -run TestVerifBoltModel .
// (the //verif:replace directives mean nothing to the Go compiler, so here the
// stub functions are ordinary functions operating on the model).

import (
	"bytes"
	"math/rand"
	"path/filepath"
	"testing"

	"go.etcd.io/bbolt"
)

func TestVerifBoltModel(t *testing.T) {
	for seed := int64(1); seed <= 300; seed++ {
		rng := rand.New(rand.NewSource(seed))
		real, err := bbolt.Open(filepath.Join(t.TempDir(), "m.db"), 0600, nil)
		if err != nil {
			t.Fatal(err)
		}
		newBoltModel()
		mdb := new(bbolt.DB)
		var rtx, mtx *bbolt.Tx
		names := [][]byte{[]byte("a"), []byte("b")}
		keys := [][]byte{{1}, {2}, {3}, {}}
		vals := [][]byte{nil, {}, {7}, {8, 9}}
		same := func(what string, a, b []byte) {
			if (a == nil) != (b == nil) || !bytes.Equal(a, b) {
				t.Fatalf("seed %d: %s: real %v (nil=%v), model %v (nil=%v)", seed, what, a, a == nil, b, b == nil)
			}
		}
		sameErr := func(what string, a, b error) {
			if (a == nil) != (b == nil) || (a != nil && a.Error() != b.Error()) {
				t.Fatalf("seed %d: %s: real %v, model %v", seed, what, a, b)
			}
		}
		for step := 0; step < 60; step++ {
			if rtx == nil {
				var e1, e2 error
				rtx, e1 = real.Begin(true)
				mtx, e2 = stubBoltBegin(mdb, true)
				sameErr("begin", e1, e2)
			}
			name := names[rng.Intn(len(names))]
			switch rng.Intn(8) {
			case 0:
				_, e1 := rtx.CreateBucket(name)
				_, e2 := stubBoltTxCreateBucket(mtx, name)
				sameErr("create", e1, e2)
			case 1:
				sameErr("commit", rtx.Commit(), stubBoltTxCommit(mtx))
				sameErr("commit twice", rtx.Commit(), stubBoltTxCommit(mtx))
				rtx, mtx = nil, nil
			case 2:
				sameErr("rollback", rtx.Rollback(), stubBoltTxRollback(mtx))
				sameErr("rollback twice", rtx.Rollback(), stubBoltTxRollback(mtx))
				rtx, mtx = nil, nil
			default:
				rb, mb := rtx.Bucket(name), stubBoltTxBucket(mtx, name)
				if (rb == nil) != (mb == nil) {
					t.Fatalf("seed %d: bucket %q: real nil=%v model nil=%v", seed, name, rb == nil, mb == nil)
				}
				if rb == nil {
					continue
				}
				k := keys[rng.Intn(len(keys))]
				switch rng.Intn(4) {
				case 0:
					v := vals[rng.Intn(len(vals))]
					sameErr("put", rb.Put(k, v), stubBoltPut(mb, k, v))
				case 1:
					if len(k) > 0 {
						sameErr("delete", rb.Delete(k), stubBoltDelete(mb, k))
					}
				case 2:
					same("get", rb.Get(k), stubBoltGet(mb, k))
				case 3:
					rc, mc := rb.Cursor(), stubBoltCursor(mb)
					rk, rv := rc.First()
					mk, mv := stubBoltCursorFirst(mc)
					for {
						same("cursor key", rk, mk)
						same("cursor value", rv, mv)
						if rk == nil {
							break
						}
						rk, rv = rc.Next()
						mk, mv = stubBoltCursorNext(mc)
					}
				}
			}
		}
		if rtx != nil {
			rtx.Rollback()
			stubBoltTxRollback(mtx)
		}
		if bm.misuse != "" {
			t.Fatalf("seed %d: the driver itself misused the model: %s", seed, bm.misuse)
		}
		real.Close()
		bm = nil
	}
}
