package syncer

// C11 (partly): what a Byzantine peer can make the per-message code paths of
// the syncer do. The peer's messages are arbitrary (chosen by the solver);
// the transport (callRPC, Stream.ReadRequest/WriteResponse) is stubbed to
// deliver them; consensus is abstract (validity and work = symbolic verdicts).

import (
	"errors"
	"time"

	"go.sia.tech/core/consensus"
	"go.sia.tech/core/gateway"
	"go.sia.tech/core/types"
	"go.sia.tech/coreutils/internal/vapi"
	"go.uber.org/zap"
)

// ---- environment -------------------------------------------------------------

type c11World struct {
	// what the peer "sends"
	respond func(r gateway.Object) error
	respondPeer func(p *Peer, r gateway.Object) error
	validated map[types.BlockID]bool
	realCall bool // run the real callRPC/callRPCContext over a stub stream
	request func(r gateway.Object) error
	wrote   []gateway.Object
	// abstract consensus verdicts
	hdrBad   map[uint64]bool
	blockBad map[uint64]bool
	lowWork  bool
	log      []string
}

var c11 *c11World

//verif:replace (*go.sia.tech/coreutils/syncer.Peer).callRPC
func stubCallRPC(p *Peer, r gateway.Object, timeout time.Duration) error {
	if c11.realCall {
		return p.callRPC(r, timeout)
	}
	c11.log = append(c11.log, "call")
	if c11.respondPeer != nil {
		return c11.respondPeer(p, r)
	}
	return c11.respond(r)
}

//verif:replace (*go.sia.tech/core/gateway.Stream).ReadRequest
func stubReadRequest(s *gateway.Stream, r gateway.Object) error { return c11.request(r) }

//verif:replace (*go.sia.tech/core/gateway.Stream).WriteResponse
func stubWriteResponse(s *gateway.Stream, r gateway.Object) error {
	c11.wrote = append(c11.wrote, r)
	return nil
}

//verif:replace (*go.sia.tech/core/gateway.Transport).Close
func stubTransportClose(t *gateway.Transport) error { return nil }

//verif:replace (go.sia.tech/core/types.BlockID).CmpWork
func stubCmpWork(bid types.BlockID, t types.BlockID) int {
	if c11.lowWork {
		return -1
	}
	return 1
}

//verif:replace go.sia.tech/core/consensus.ValidateHeader
func stubValidateHeader(s consensus.State, bh types.BlockHeader) error {
	c11.log = append(c11.log, "validate-header")
	if bh.ParentID != s.Index.ID {
		return errors.New("wrong parent ID")
	}
	if c11.hdrBad[bh.Nonce] {
		return errors.New("abstract: invalid header")
	}
	return nil
}

//verif:replace go.sia.tech/core/consensus.ApplyHeader
func stubApplyHeader(s consensus.State, bh types.BlockHeader, ts time.Time) consensus.State {
	if s.Index.Height > 0 && s.Index.ID != bh.ParentID {
		panic("consensus: cannot apply non-child block")
	}
	c11.log = append(c11.log, "apply-header")
	s.Index = types.ChainIndex{Height: s.Index.Height + 1, ID: bh.ID()}
	return s
}

//verif:replace go.sia.tech/coreutils/syncer.Subnet
func stubSubnet(addr, mask string) string { return addr + mask }

// vCM is the victim's chain manager.
type vCM struct {
	tip      consensus.State
	known    map[types.BlockID]consensus.State
	addErr   bool
	added    [][]types.Block
	addedV2  []types.Block
	realTip  *types.ChainIndex // when the sync round starts below the node's tip
	partial  []types.V2Transaction // pool content offered for outline completion
	addedStates []consensus.State
	poolTxns int
	poolErr  bool
	log      *[]string
}

func (c *vCM) History() ([32]types.BlockID, error) { return [32]types.BlockID{}, nil }
func (c *vCM) BlocksForHistory(h []types.BlockID, max uint64) ([]types.Block, uint64, error) {
	return nil, 0, nil
}
func (c *vCM) Headers(index types.ChainIndex, max uint64) ([]types.BlockHeader, uint64, error) {
	return nil, 0, nil
}
func (c *vCM) Block(id types.BlockID) (types.Block, bool) { _, ok := c.known[id]; return types.Block{}, ok }
func (c *vCM) State(id types.BlockID) (consensus.State, bool) {
	s, ok := c.known[id]
	return s, ok
}
func (c *vCM) AddBlocks(blocks []types.Block) error {
	*c.log = append(*c.log, "add-blocks")
	c.added = append(c.added, blocks)
	if c.addErr {
		return errors.New("chain: invalid block")
	}
	return nil
}
func (c *vCM) AddValidatedV2Blocks(blocks []types.Block, states []consensus.State) error {
	*c.log = append(*c.log, "add-validated")
	c.addedV2 = append(c.addedV2, blocks...)
	c.addedStates = append(c.addedStates, states...)
	if len(blocks) != len(states) {
		return errors.New("chain: blocks and states differ in length")
	}
	return nil
}
func (c *vCM) Tip() types.ChainIndex {
	if c.realTip != nil {
		return *c.realTip
	}
	return c.tip.Index
}
func (c *vCM) TipState() consensus.State                                              { return c.tip }
func (c *vCM) PoolTransaction(txid types.TransactionID) (types.Transaction, bool) {
	return types.Transaction{}, false
}
func (c *vCM) AddPoolTransactions(txns []types.Transaction) (bool, error) { return false, nil }
func (c *vCM) V2PoolTransaction(txid types.TransactionID) (types.V2Transaction, bool) {
	return types.V2Transaction{}, false
}
func (c *vCM) AddV2PoolTransactions(basis types.ChainIndex, txns []types.V2Transaction) (bool, error) {
	c.poolTxns += len(txns)
	if c.poolErr {
		return false, errors.New("invalid set")
	}
	return false, nil
}
func (c *vCM) TransactionsForPartialBlock(missing []types.Hash256) ([]types.Transaction, []types.V2Transaction) {
	// what the node's pool holds among the requested hashes
	var out []types.V2Transaction
	for _, t := range c.partial {
		for _, h := range missing {
			if t.MerkleLeafHash() == h {
				out = append(out, t)
			}
		}
	}
	return nil, out
}

type vPM struct{ bans []string }

func (p *vPM) AddPeer(addr string) error                              { return nil }
func (p *vPM) Peers() ([]PeerInfo, error)                             { return nil, nil }
func (p *vPM) PeerInfo(addr string) (PeerInfo, error)                 { return PeerInfo{}, nil }
func (p *vPM) UpdatePeerInfo(addr string, fn func(*PeerInfo)) error   { return nil }
func (p *vPM) Ban(addr string, d time.Duration, reason string) error  { p.bans = append(p.bans, addr); return nil }
func (p *vPM) Banned(addr string) (bool, error)                       { return false, nil }

func newC11() (*Syncer, *vCM, *vPM, *Peer) {
	c11 = &c11World{hdrBad: map[uint64]bool{}, blockBad: map[uint64]bool{}}
	tipID := types.BlockID{0x71}
	net := &consensus.Network{Name: "verif"}
	net.HardforkV2.FinalCutHeight = 1 << 40 // PoWTarget = ChildTarget (no big-integer inversion)
	cm := &vCM{tip: consensus.State{Network: net, Index: types.ChainIndex{Height: 10, ID: tipID}}, known: map[types.BlockID]consensus.State{}, log: &c11.log}
	cm.known[tipID] = cm.tip
	side := types.BlockID{0x51}
	cm.known[side] = consensus.State{Network: net, Index: types.ChainIndex{Height: 9, ID: side}}
	pm := &vPM{}
	s := &Syncer{cm: cm, pm: pm, log: zap.NewNop(), peers: map[string]*Peer{}, strikes: map[string]int{}}
	s.config.BanDuration = time.Hour
	p := &Peer{t: &gateway.Transport{Addr: "1.2.3.4:9981"}, ConnAddr: "1.2.3.4:5555", synced: true}
	return s, cm, pm, p
}

// ---- client side: SendHeaders / SendCheckpoint ---------------------------------

// VerifH_C11_headers: headers from the peer are validated one by one against
// the running state before being applied; the first invalid one aborts.
//
//verif:harness prop=C11 tier=quick replay=interp go=skip require=accepted,rejected bounds="0..3 headers with arbitrary parent links (to the previous header or elsewhere) and symbolic validity"
func VerifH_C11_headers() {
	_, cm, _, p := newC11()
	n := vapi.Int("headers", 0, 3)
	var hs []types.BlockHeader
	prev := cm.tip.Index.ID
	allGood := true
	for i := 0; i < n; i++ {
		bh := types.BlockHeader{ParentID: prev, Nonce: uint64(i + 1)}
		if vapi.Bool("detached") {
			bh.ParentID = types.BlockID{0xde, byte(i)}
			allGood = false
		}
		c11.hdrBad[bh.Nonce] = vapi.Bool("invalid")
		if c11.hdrBad[bh.Nonce] {
			allGood = false
		}
		hs = append(hs, bh)
		prev = bh.ID()
	}
	c11.respond = func(r gateway.Object) error {
		rr := r.(*gateway.RPCSendHeaders)
		rr.Headers, rr.Remaining = hs, 5
		return nil
	}
	got, _, err := p.SendHeaders(cm.tip, 10, time.Second)
	if err != nil {
		vapi.Reach("rejected")
		vapi.Assert("headers.only-bad-rejected", !allGood)
		vapi.Assert("headers.nothing-returned", len(got) == 0)
		return
	}
	vapi.Reach("accepted")
	vapi.Assert("headers.all-valid-and-linked", allGood)
	// every header was validated before it was applied
	v, a := 0, 0
	for _, e := range c11.log {
		switch e {
		case "validate-header":
			v++
		case "apply-header":
			a++
			vapi.Assert("headers.validate-before-apply", v >= a)
		}
	}
	vapi.Assert("headers.each-validated", v == n && a == n)
}

// VerifH_C11_checkpoint: whatever checkpoint the peer returns, SendCheckpoint
// never panics, and returns nil only for a v2 block with exactly one miner
// payout whose id is the requested one and whose commitment binds the state.
//
//verif:harness prop=C11 tier=quick replay=interp go=skip require=accepted,rejected bounds="checkpoint block with 0..2 miner payouts, v2 data present or not, id equal to the requested one or not, commitment correct or not"
func VerifH_C11_checkpoint() {
	_, _, _, p := newC11()
	n := &consensus.Network{Name: "verif"}
	state := consensus.State{Index: types.ChainIndex{Height: 20, ID: types.BlockID{0x20}}}
	b := types.Block{ParentID: state.Index.ID, Nonce: 9}
	payouts := vapi.Int("payouts", 0, 2)
	for i := 0; i < payouts; i++ {
		b.MinerPayouts = append(b.MinerPayouts, types.SiacoinOutput{Value: types.NewCurrency64(5), Address: types.Address{byte(i + 1)}})
	}
	isV2 := vapi.Bool("v2")
	goodCommit := vapi.Bool("commitment-correct")
	if isV2 {
		b.V2 = &types.V2BlockData{Height: 21}
		if goodCommit && payouts > 0 {
			st := state
			st.Network = n
			b.V2.Commitment = st.Commitment(b.MinerPayouts[0].Address, b.Transactions, b.V2Transactions())
		} else {
			b.V2.Commitment = types.Hash256{0xbd}
			goodCommit = false
		}
	}
	index := types.ChainIndex{Height: 21, ID: b.ID()}
	idMatches := vapi.Bool("id-matches")
	if !idMatches {
		index.ID = types.BlockID{0x99}
	}
	c11.respond = func(r gateway.Object) error {
		rr := r.(*gateway.RPCSendCheckpoint)
		rr.State, rr.Block = state, b
		return nil
	}
	_, gotB, err := p.SendCheckpoint(index, n, time.Second)
	if err != nil {
		vapi.Reach("rejected")
		vapi.Assert("checkpoint.good-accepted", !(isV2 && payouts == 1 && idMatches && goodCommit))
		return
	}
	vapi.Reach("accepted")
	vapi.Assert("checkpoint.v2-one-payout", isV2 && payouts == 1)
	vapi.Assert("checkpoint.id", idMatches && gotB.ID() == index.ID)
	vapi.Assert("checkpoint.commitment", goodCommit)
}

// ---- server side: relays -------------------------------------------------------

// VerifH_C11_relay_header: a relayed header leads to a ban iff it has
// insufficient work; unknown parents and side chains only trigger a resync;
// nothing is relayed before the work and attachment checks passed; no panic.
//
//verif:harness prop=C11 tier=quick replay=interp go=skip require=banned,resync,relayed bounds="relayed header with parent = tip / known side block / unknown; already-seen or new; work sufficient or not; read error"
func VerifH_C11_relay_header() {
	s, cm, pm, p := newC11()
	parentSel := vapi.Int("parent", 0, 2)
	bh := types.BlockHeader{Nonce: 5}
	switch parentSel {
	case 0:
		bh.ParentID = cm.tip.Index.ID
	case 1:
		bh.ParentID = types.BlockID{0x51}
	case 2:
		bh.ParentID = types.BlockID{0xee}
	}
	seen := vapi.Bool("already-seen")
	if seen {
		cm.known[bh.ID()] = consensus.State{}
	}
	c11.lowWork = vapi.Bool("insufficient-work")
	readErr := vapi.Bool("read-error")
	c11.request = func(r gateway.Object) error {
		if readErr {
			return errors.New("read failed")
		}
		r.(*gateway.RPCRelayV2Header).Header = bh
		return nil
	}
	if vapi.Bool("peer-already-gone") {
		p.err = errors.New("connection closed")
	}
	err := s.handleRPC(types.NewSpecifier("RelayV2Header"), nil, p)
	_ = err
	banned := len(pm.bans) > 0
	wantBan := !readErr && parentSel != 2 && !seen && c11.lowWork
	vapi.Assert("relay-header.ban-iff-provable", banned == wantBan)
	if banned {
		vapi.Reach("banned")
		vapi.Assert("relay-header.ban-address", pm.bans[0] == p.ConnAddr)
	}
	if !readErr && !banned && (parentSel == 2 || (parentSel == 1 && !seen)) {
		vapi.Reach("resync")
		vapi.Assert("relay-header.resync", !p.Synced())
	}
	if !readErr && parentSel == 0 && !seen && !c11.lowWork {
		vapi.Reach("relayed")
		vapi.Assert("relay-header.still-synced", p.Synced())
	}
	vapi.Assert("relay-header.no-blocks-added", len(cm.added) == 0)
}

// VerifH_C11_relay_txns: relayed transaction sets.
//
//verif:harness prop=C11 tier=quick replay=interp go=skip require=banned,accepted bounds="transaction set of 0..2 transactions with known or unknown basis; pool accepts or rejects"
func VerifH_C11_relay_txns() {
	s, cm, pm, p := newC11()
	knownBasis := vapi.Bool("known-basis")
	idx := types.ChainIndex{Height: 10, ID: cm.tip.Index.ID}
	if !knownBasis {
		idx.ID = types.BlockID{0xab}
	}
	n := vapi.Int("txns", 0, 2)
	cm.poolErr = vapi.Bool("pool-rejects")
	c11.request = func(r gateway.Object) error {
		rr := r.(*gateway.RPCRelayV2TransactionSet)
		rr.Index = idx
		for i := 0; i < n; i++ {
			rr.Transactions = append(rr.Transactions, types.V2Transaction{ArbitraryData: []byte{byte(i)}})
		}
		return nil
	}
	err := s.handleRPC(types.NewSpecifier("RelayV2Txns"), nil, p)
	_ = err
	banned := len(pm.bans) > 0
	vapi.Assert("relay-txns.ban-iff-empty-set", banned == (knownBasis && n == 0))
	if banned {
		vapi.Reach("banned")
	}
	if knownBasis && n > 0 {
		vapi.Reach("accepted")
		vapi.Assert("relay-txns.submitted-once", cm.poolTxns == n)
	} else {
		vapi.Assert("relay-txns.not-submitted", cm.poolTxns == 0)
	}
	if !knownBasis {
		vapi.Assert("relay-txns.resync", !p.Synced())
	}
}
