package syncer

// C11 (parallelSync): the worker goroutines, the finisher goroutine and the
// orchestrating select loop run under the symbolic scheduler; the peers'
// answers to SendV2Blocks / SendCheckpoint are arbitrary within the bounds.

import (
	"context"
	"errors"
	"strings"
	"time"

	"go.sia.tech/core/consensus"
	"go.sia.tech/core/gateway"
	"go.sia.tech/core/types"
	"go.sia.tech/coreutils/internal/vapi"
)

//verif:replace (*go.sia.tech/coreutils/syncer.Peer).callRPCContext
func stubCallRPCContext(p *Peer, ctx context.Context, r gateway.Object, timeout time.Duration) error {
	if c11.realCall {
		return p.callRPCContext(ctx, r, timeout)
	}
	c11.log = append(c11.log, "call")
	if c11.respondPeer != nil {
		return c11.respondPeer(p, r)
	}
	return c11.respond(r)
}

//verif:replace go.sia.tech/core/consensus.ValidateBlock
func stubValidateBlock(s consensus.State, b types.Block, bs consensus.V1BlockSupplement) error {
	c11.log = append(c11.log, "validate-block")
	c11.validated[b.ID()] = true
	if b.ParentID != s.Index.ID {
		return errors.New("wrong parent ID")
	}
	if c11.blockBad[b.Nonce] {
		return errors.New("abstract: invalid block")
	}
	return nil
}

//verif:replace go.sia.tech/core/consensus.ApplyBlock
func stubApplyBlock(s consensus.State, b types.Block, bs consensus.V1BlockSupplement, ts time.Time) (consensus.State, consensus.ApplyUpdate) {
	if s.Index.Height > 0 && s.Index.ID != b.ParentID {
		panic("consensus: cannot apply non-child block")
	}
	s.Index = types.ChainIndex{Height: s.Index.Height + 1, ID: b.ID()}
	return s, consensus.ApplyUpdate{}
}

// VerifH_C11_psync_v1: below the require height. One or two peers; each
// answers a block request with 0..n+1 blocks, each genuine or altered.
//
//verif:harness prop=C11 tier=quick replay=interp go=sched preempt=1 timers=2 require=synced,failed bounds="1..2 headers in one request, 1..2 unsynced peers, each answer: n-1..n+1 blocks with the last one genuine or altered, or a transport error; AddBlocks accepts or rejects; ticker fires ≤2 times; ≤1 delay"
func VerifH_C11_psync_v1() {
	s, cm, pm, p := newC11()
	c11.validated = map[types.BlockID]bool{}
	s.config.SendBlocksTimeout = time.Second
	s.config.SendBlockTimeout = time.Second
	cm.tip.Network.HardforkV2.RequireHeight = 1 << 30
	p.synced = false
	p.t.UniqueID = gateway.UniqueID{1}
	s.peers[p.t.Addr] = p
	peers := []*Peer{p}
	if vapi.Bool("two_peers") {
		q := &Peer{t: &gateway.Transport{Addr: "5.6.7.8:9981", UniqueID: gateway.UniqueID{2}}, ConnAddr: "5.6.7.8:5555"}
		s.peers[q.t.Addr] = q
		peers = append(peers, q)
	}
	n := vapi.Int("headers", 1, 2)
	var blocks []types.Block
	var headers []types.BlockHeader
	prev := cm.tip.Index.ID
	for k := 0; k < n; k++ {
		b := types.Block{ParentID: prev, Nonce: uint64(100 + k), Timestamp: time.Unix(1700000000, 0)}
		blocks = append(blocks, b)
		headers = append(headers, b.Header())
		prev = b.ID()
	}
	cm.addErr = vapi.Bool("add_rejects")
	honestAnswers := 0
	c11.respondPeer = func(from *Peer, r gateway.Object) error {
		rr, ok := r.(*gateway.RPCSendV2Blocks)
		if !ok {
			return errors.New("unexpected rpc")
		}
		if vapi.Bool("transport_error") {
			return errors.New("stream reset")
		}
		// the answer: the announced blocks, one block short, or one too many;
		// its last block genuine or altered
		cnt := n + vapi.Int("answer_len_delta", -1, 1)
		honest := cnt == n
		alterLast := cnt > 0 && vapi.Bool("last_block_altered")
		for k := 0; k < cnt; k++ {
			var b types.Block
			if k < n {
				b = blocks[k]
			} else {
				b = types.Block{ParentID: prev, Nonce: 999}
			}
			if alterLast && k == cnt-1 {
				b.Nonce += 5000
				honest = false
			}
			rr.Blocks = append(rr.Blocks, b)
		}
		if honest {
			honestAnswers++
		}
		return nil
	}
	err := s.parallelSync(context.Background(), cm.tip, headers)
	left := vapi.WaitIdle()
	vapi.Note("blocked", vapi.Blocked())
	vapi.Assert("psync.no-goroutine-left", left == 0)
	var got []types.BlockID
	for _, batch := range cm.added {
		for _, b := range batch {
			got = append(got, b.ID())
		}
	}
	if err == nil {
		vapi.Reach("synced")
		// success means the node received exactly the announced chain
		vapi.Assert("psync.success-means-every-announced-block-added", len(got) == n)
		for k := 0; k < len(got) && k < n; k++ {
			vapi.Assert("psync.blocks-match-headers", got[k] == headers[k].ID())
		}
		vapi.Assert("psync.success-needs-an-honest-answer", honestAnswers > 0)
		vapi.Assert("psync.success-means-accepted", !cm.addErr)
	} else {
		vapi.Reach("failed")
	}
	// only blocks matching the validated headers ever reach the chain manager
	for k, id := range got {
		vapi.Assert("psync.only-announced-blocks-submitted", k < n && id == headers[k].ID())
	}
	// a ban needs proof: only a rejected batch is one
	if len(pm.bans) > 0 {
		vapi.Assert("psync.ban-only-for-rejected-blocks", cm.addErr && len(cm.added) > 0)
	}
	_ = peers
}

// VerifH_C11_psync_v2: at or above the require height (instant sync): the
// worker fetches a checkpoint for the batch base, then the blocks, validates
// each block against the checkpoint-derived state and only then hands blocks
// and states to AddValidatedV2Blocks.
//
// Assumption (stated in DESIGN.md): a (state, block) pair that passes
// SendCheckpoint's id and commitment checks is the block's real parent state
// (blocks whose headers carry valid proof of work were mined over their
// parent state); a peer can still answer with a wrong block or a wrong
// commitment, which SendCheckpoint rejects (VerifH_C11_checkpoint).
//
//verif:harness prop=C11 tier=quick replay=interp go=sched preempt=1 timers=2 require=synced,failed,banned bounds="1..2 headers, 1 unsynced peer (2 in the thorough tier), checkpoint honest / wrong block / transport error, first announced block already stored or not, block answer n-1..n+1 blocks with the last one genuine or altered, each block valid or not; ≤1 delay"
func VerifH_C11_psync_v2() {
	s, cm, pm, p := newC11()
	c11.validated = map[types.BlockID]bool{}
	s.config.SendBlocksTimeout = time.Second
	s.config.SendBlockTimeout = time.Second
	net := cm.tip.Network
	net.HardforkV2.RequireHeight = 5
	parent := consensus.State{Network: net, Index: types.ChainIndex{Height: 9, ID: types.BlockID{0x99}}}
	tipBlock := types.Block{ParentID: parent.Index.ID, Nonce: 7, Timestamp: time.Unix(1700000000, 0),
		MinerPayouts: []types.SiacoinOutput{{Value: types.NewCurrency64(1), Address: types.Address{1}}},
		V2:           &types.V2BlockData{Height: 10}}
	tipBlock.V2.Commitment = parent.Commitment(tipBlock.MinerPayouts[0].Address, nil, nil)
	cm.tip.Index = types.ChainIndex{Height: 10, ID: tipBlock.ID()}
	p.synced = false
	p.t.UniqueID = gateway.UniqueID{1}
	s.peers[p.t.Addr] = p
	n := vapi.Int("headers", 1, 2)
	var blocks []types.Block
	var headers []types.BlockHeader
	prev := cm.tip.Index.ID
	anyInvalid := false
	for k := 0; k < n; k++ {
		b := types.Block{ParentID: prev, Nonce: uint64(100 + k), Timestamp: time.Unix(1700000000, 0), V2: &types.V2BlockData{Height: uint64(11 + k)}}
		c11.blockBad[b.Nonce] = vapi.Bool("block_invalid")
		anyInvalid = anyInvalid || c11.blockBad[b.Nonce]
		blocks = append(blocks, b)
		headers = append(headers, b.Header())
		prev = b.ID()
	}
	// the node may already have the first announced block (a peer made it walk
	// back below its own tip): what is served is validated all the same
	if vapi.Bool("first_block_known") {
		st := consensus.State{Network: net, Index: types.ChainIndex{Height: 11, ID: blocks[0].ID()}}
		cm.known[blocks[0].ID()] = st
		cm.realTip = &types.ChainIndex{Height: 12, ID: types.BlockID{0x12}}
	}
	honestAnswers := 0
	c11.respondPeer = func(from *Peer, r gateway.Object) error {
		switch rr := r.(type) {
		case *gateway.RPCSendCheckpoint:
			switch vapi.Int("checkpoint", 0, 2) {
			case 0:
				rr.State, rr.Block = parent, tipBlock
				rr.State.Network = nil
			case 1:
				wrong := tipBlock
				wrong.Nonce = 8
				rr.State, rr.Block = parent, wrong
			case 2:
				return errors.New("stream reset")
			}
			return nil
		case *gateway.RPCSendV2Blocks:
			cnt := n + vapi.Int("answer_len_delta", -1, 1)
			honest := cnt == n
			alterLast := cnt > 0 && vapi.Bool("last_block_altered")
			for k := 0; k < cnt; k++ {
				var b types.Block
				if k < n {
					b = blocks[k]
				} else {
					b = types.Block{ParentID: prev, Nonce: 999}
				}
				if alterLast && k == cnt-1 {
					b.Nonce += 5000
					honest = false
				}
				rr.Blocks = append(rr.Blocks, b)
			}
			if honest {
				honestAnswers++
			}
			return nil
		}
		return errors.New("unexpected rpc")
	}
	err := s.parallelSync(context.Background(), cm.tip, headers)
	left := vapi.WaitIdle()
	vapi.Assert("psync2.no-goroutine-left", left == 0)
	if err == nil {
		vapi.Reach("synced")
		vapi.Assert("psync2.success-means-every-announced-block-added", len(cm.addedV2) == n)
		vapi.Assert("psync2.success-needs-an-honest-answer", honestAnswers > 0)
		vapi.Assert("psync2.success-means-all-valid", !anyInvalid)
	} else {
		vapi.Reach("failed")
	}
	for k, b := range cm.addedV2 {
		vapi.Assert("psync2.only-announced-blocks-submitted", k < n && b.ID() == headers[k].ID())
		vapi.Assert("psync2.validated-before-submitted", c11.validated[b.ID()] && !c11.blockBad[b.Nonce])
		vapi.Assert("psync2.state-is-the-blocks-own", cm.addedStates[k].Index.ID == b.ID())
	}
	if len(pm.bans) > 0 {
		vapi.Reach("banned")
		vapi.Assert("psync2.ban-only-for-invalid-blocks", anyInvalid)
	}
}

//verif:harness prop=C11 tier=thorough replay=interp go=sched preempt=2 timers=3 require=synced,failed bounds="as VerifH_C11_psync_v1 with ≤2 delays, ticker firing ≤3 times"
func VerifH_C11_psync_v1_deep() { VerifH_C11_psync_v1() }

//verif:harness prop=C11 tier=thorough replay=interp go=sched preempt=3 timers=3 require=synced,failed,banned bounds="as VerifH_C11_psync_v2 with ≤3 delays, ticker firing ≤3 times"
func VerifH_C11_psync_v2_deep() { VerifH_C11_psync_v2() }

// VerifH_C11_psync_late_honest: two Byzantine peers take every copy of the
// (single) block request and fail it; an honest peer connects while they hold
// it. The honest peer's worker must get the failed request: the sync ends
// with the honest chain. A request that is dropped instead leaves the honest
// worker waiting for ever while the loop only ticks; that state (everything
// blocked, timer budget used up) is shown to a watcher, which requires that no
// worker is parked waiting for work while the sync has not returned.
//
//verif:harness prop=C11 tier=quick replay=interp go=sched preempt=1 timers=4 require=synced bounds="1..2 headers in one request; two peers that fail every request (transport error) and one honest peer that becomes known while both hold the request; ticker fires ≤4 times; ≤1 delay"
func VerifH_C11_psync_late_honest() {
	s, cm, _, p := newC11()
	c11.validated = map[types.BlockID]bool{}
	s.config.SendBlocksTimeout = time.Second
	s.config.SendBlockTimeout = time.Second
	cm.tip.Network.HardforkV2.RequireHeight = 1 << 30
	p.synced = false
	p.t.UniqueID = gateway.UniqueID{1}
	s.peers[p.t.Addr] = p
	q := &Peer{t: &gateway.Transport{Addr: "5.6.7.8:9981", UniqueID: gateway.UniqueID{2}}, ConnAddr: "5.6.7.8:5555"}
	s.peers[q.t.Addr] = q
	r := &Peer{t: &gateway.Transport{Addr: "9.9.9.9:9981", UniqueID: gateway.UniqueID{3}}, ConnAddr: "9.9.9.9:5555"}
	n := vapi.Int("headers", 1, 2)
	var blocks []types.Block
	var headers []types.BlockHeader
	prev := cm.tip.Index.ID
	for k := 0; k < n; k++ {
		b := types.Block{ParentID: prev, Nonce: uint64(100 + k), Timestamp: time.Unix(1700000000, 0)}
		blocks = append(blocks, b)
		headers = append(headers, b.Header())
		prev = b.ID()
	}
	asked := map[*Peer]bool{}
	honestKnown := false
	c11.respondPeer = func(from *Peer, rq gateway.Object) error {
		rr, ok := rq.(*gateway.RPCSendV2Blocks)
		if !ok {
			return errors.New("unexpected rpc")
		}
		if from == r {
			rr.Blocks = append(rr.Blocks, blocks...)
			return nil
		}
		asked[from] = true
		if asked[p] && asked[q] && !honestKnown {
			// both copies of the request are out: now the honest peer connects
			honestKnown = true
			s.mu.Lock()
			s.peers[r.t.Addr] = r
			s.mu.Unlock()
		}
		return errors.New("stream reset")
	}
	returned := false
	go func() {
		vapi.WaitStuck()
		if !returned && honestKnown {
			// nothing can move any more except the ticker: a worker parked on
			// the request channel now will never be served
			// (the one goroutine that legitimately waits on a channel for the
			// whole sync is the finisher, which receives completed batches)
			vapi.Note("stuck", vapi.Blocked())
			vapi.Assert("psync.failed-request-reaches-the-idle-honest-worker", strings.Count(vapi.Blocked(), ": chan receive]") <= 1)
		}
	}()
	err := s.parallelSync(context.Background(), cm.tip, headers)
	returned = true
	if err == nil {
		vapi.Reach("synced")
		got := 0
		for _, batch := range cm.added {
			got += len(batch)
		}
		vapi.Assert("psync.success-means-every-announced-block-added", got == n)
	} else {
		// both Byzantine peers failed before the honest one was known to the
		// loop and the tick noticed "all peers failed": allowed
		vapi.Reach("failed")
	}
}
