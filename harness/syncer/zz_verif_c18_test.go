package syncer

// C18 (syncer part): per-peer and per-subnet in-flight limits, back-pressure,
// slot return and shutdown of runPeer, for every interleaving (within the
// preemption bound) of the peer loops, the handler goroutines and Stop.
// Transport and handlers are stubs: a peer "sends" k RPCs and then fails; a
// handler registers itself, waits until released (or the syncer stops) and
// unregisters.

import (
	"context"
	"errors"
	"net"
		"time"

	"go.sia.tech/core/gateway"
	"go.sia.tech/core/types"
	"go.sia.tech/coreutils/internal/vapi"
	"go.sia.tech/coreutils/threadgroup"
	"go.uber.org/zap"
)

type c18World struct {
	s         *Syncer
	toSend    map[*Peer]int
	sent      map[*Peer]int
	closed    map[*gateway.Stream]bool
	active    map[*Peer]int
	subActive map[string]int
	started   int
	finished  int
	release   chan struct{}
	hosts     int
	loopsStarted int
	subnetOf  map[*Peer]string
	holdPeers bool // peers stay connected (acceptRPC blocks) until released or stopped
	refused   int
}

var c18 *c18World

//verif:replace (*go.sia.tech/coreutils/syncer.Peer).acceptRPC
func stubAcceptRPC(p *Peer) (types.Specifier, *gateway.Stream, error) {
	if c18 == nil {
		return p.acceptRPC()
	}
	if c18.sent[p] >= c18.toSend[p] {
		if c18.holdPeers {
			w := c18
			w.s.mu.Lock()
			in := 0
			for _, q := range w.s.peers {
				if q.Inbound {
					in++
				}
			}
			w.s.mu.Unlock()
			vapi.Assert("cap.inbound", in <= w.s.config.MaxInboundPeers)
			select {
			case <-w.release:
			case <-w.s.tg.Done():
			}
		}
		return types.Specifier{}, nil, errors.New("transport closed")
	}
	c18.sent[p]++
	return types.NewSpecifier("Verif"), &gateway.Stream{}, nil
}

//verif:replace (*go.sia.tech/core/gateway.Stream).Close
func stubStreamClose(s *gateway.Stream) error {
	if c18 != nil {
		c18.closed[s] = true
	}
	if rpcW != nil {
		rpcW.closed = true
	}
	return nil
}

//verif:replace (*go.sia.tech/core/gateway.Stream).SetDeadline
func stubStreamSetDeadline(s *gateway.Stream, t time.Time) error {
	if rpcW != nil {
		rpcW.deadline, rpcW.deadlineSet = t, true
	}
	return nil
}

//verif:replace (*go.sia.tech/coreutils/syncer.Syncer).handleRPC
func stubHandleRPC(s *Syncer, id types.Specifier, stream *gateway.Stream, origin *Peer) error {
	if c18 == nil {
		return s.handleRPC(id, stream, origin)
	}
	w := c18
	sub := w.subnetOf[origin] // the harness's own notion of the peer's /24, not the code's
	w.active[origin]++
	w.subActive[sub]++
	w.started++
	if s.config.MaxInflightRPCs > 0 {
		vapi.Assert("limit.per-peer", w.active[origin] <= s.config.MaxInflightRPCs)
	}
	if s.config.MaxInflightRPCsPerSubnet > 0 && sub != "" {
		vapi.Assert("limit.per-subnet", w.subActive[sub] <= s.config.MaxInflightRPCsPerSubnet)
	}
	select {
	case <-w.release:
	case <-s.tg.Done():
	}
	w.active[origin]--
	w.subActive[sub]--
	w.finished++
	return nil
}

func newC18(perPeer, perSubnet int) *c18World {
	s := &Syncer{pm: &vPM{}, log: zap.NewNop(), peers: map[string]*Peer{}, strikes: map[string]int{}, inflightSubnet: map[string]int{}}
	s.tg = threadgroup.New()
	s.peerRemoved.L = &s.mu
	s.config.MaxInflightRPCs = perPeer
	s.config.MaxInflightRPCsPerSubnet = perSubnet
	s.config.InflightIPv4PrefixBits = 24
	s.config.InflightIPv6PrefixBits = 64
	s.config.RPCTimeout = time.Second
	c18 = &c18World{s: s, toSend: map[*Peer]int{}, sent: map[*Peer]int{}, closed: map[*gateway.Stream]bool{}, active: map[*Peer]int{}, subActive: map[string]int{}, release: make(chan struct{})}
	return c18
}

func (w *c18World) peer(addr, subnet string, n int) *Peer {
	// subnet is the first three octets; the peer's address completes them
	w.hosts++
	p := &Peer{t: &gateway.Transport{Addr: addr}, ConnAddr: subnet + "." + string(rune('0'+w.hosts)) + ":9981"}
	w.s.peers[addr] = p
	if w.subnetOf == nil {
		w.subnetOf = map[*Peer]string{}
	}
	w.subnetOf[p] = subnet
	w.toSend[p] = n
	return p
}

// VerifH_C18_inflight: two peers of one subnet (or of two), per-peer limit 1..2,
// subnet limit disabled/1/2, each peer sends 1..2 RPCs, handlers block until
// released.
//
//verif:harness prop=C18 tier=quick replay=interp go=sched preempt=2 require=quiesced,rejected-by-subnet,back-pressure bounds="2 peers × 1..2 RPCs, MaxInflightRPCs 1..2, MaxInflightRPCsPerSubnet 0..2, same or different subnet, handlers held until released; ≤2 delays"
func VerifH_C18_inflight() {
	perPeer := vapi.Int("per_peer", 1, 2)
	perSubnet := vapi.Int("per_subnet", 0, 2)
	w := newC18(perPeer, perSubnet)
	s := w.s
	sameSubnet := vapi.Bool("same_subnet")
	subB := "10.0.1"
	if sameSubnet {
		subB = "10.0.0"
	}
	a := w.peer("a:1", "10.0.0", vapi.Int("rpcs_a", 1, 2))
	b := w.peer("b:1", subB, vapi.Int("rpcs_b", 1, 2))
	go s.runPeer(a)
	go s.runPeer(b)

	// let everything run until only blocked goroutines remain: handlers wait
	// for the release, peer loops wait for a slot (back-pressure)
	n := vapi.WaitIdle()
	for p, k := range w.active {
		vapi.Assert("limit.per-peer.at-rest", perPeer <= 0 || k <= perPeer)
		_ = p
	}
	if n > w.started-w.finished {
		vapi.Reach("back-pressure") // a peer loop is parked waiting for a slot
	}
	total := w.sent[a] + w.sent[b]
	if w.started < total && n == w.started {
		vapi.Reach("rejected-by-subnet")
	}
	close(w.release)
	n = vapi.WaitIdle()
	vapi.Note("blocked", vapi.Blocked())
	vapi.Assert("quiesce.no-goroutine-left", n == 0)
	vapi.Assert("quiesce.all-rpcs-accepted", w.sent[a] == w.toSend[a] && w.sent[b] == w.toSend[b])
	vapi.Assert("quiesce.handlers-finished", w.started == w.finished)
	vapi.Assert("quiesce.subnet-slots-returned", len(s.inflightSubnet) == 0)
	if perSubnet == 0 {
		// only the per-peer limit applies: it delays, it never drops
		vapi.Assert("back-pressure.nothing-dropped", w.started == total)
	}
	vapi.Assert("quiesce.peers-removed", len(s.peers) == 0)
	vapi.Reach("quiesced")
}

// VerifH_C18_shutdown: Stop at any moment relative to the in-flight work.
//
//verif:harness prop=C18 tier=quick replay=interp go=sched preempt=3 require=stopped bounds="1 peer × 1..2 RPCs, limits 1..2 / 0..1, Stop concurrent with the peer loop and its handlers; a peer added after Stop; ≤3 delays"
func VerifH_C18_shutdown() {
	perPeer := vapi.Int("per_peer", 1, 2)
	perSubnet := vapi.Int("per_subnet", 0, 1)
	w := newC18(perPeer, perSubnet)
	s := w.s
	a := w.peer("a:1", "10.0.0", vapi.Int("rpcs_a", 1, 2))
	go s.runPeer(a)
	vapi.Yield()
	s.tg.Stop()
	vapi.Assert("stop.no-handler-running", w.started == w.finished)
	vapi.Reach("stopped")
	// work submitted afterwards is rejected
	late := w.peer("c:1", "10.0.0", 1)
	s.runPeer(late)
	vapi.Assert("stop.late-peer-not-served", w.sent[late] == 0)
	n := vapi.WaitIdle()
	vapi.Assert("stop.no-goroutine-left", n == 0)
	// the handler goroutine returns its slots in deferred calls that run after
	// it left the thread group, so they are checked at rest, not at Stop's return
	vapi.Assert("stop.subnet-slots-returned", len(s.inflightSubnet) == 0)
}

// ---- inbound peer cap under concurrent connection attempts ----------------------

type c18Addr string

func (a c18Addr) Network() string { return "tcp" }
func (a c18Addr) String() string  { return string(a) }

type c18Conn struct {
	addr   c18Addr
	id     byte
	closed bool
}

func (c *c18Conn) Read(b []byte) (int, error)         { return 0, errors.New("c18Conn: not readable") }
func (c *c18Conn) Write(b []byte) (int, error)        { return len(b), nil }
func (c *c18Conn) Close() error                       { c.closed = true; return nil }
func (c *c18Conn) LocalAddr() net.Addr                { return c18Addr("0.0.0.0:1") }
func (c *c18Conn) RemoteAddr() net.Addr               { return c.addr }
func (c *c18Conn) SetDeadline(t time.Time) error      { return nil }
func (c *c18Conn) SetReadDeadline(t time.Time) error  { return nil }
func (c *c18Conn) SetWriteDeadline(t time.Time) error { return nil }

type c18Listener struct {
	conns    []*c18Conn
	closed   chan struct{}
	isClosed bool
	netErr   bool // report net.ErrClosed like a real listener
}

func (l *c18Listener) Accept() (net.Conn, error) {
	if len(l.conns) > 0 {
		c := l.conns[0]
		l.conns = l.conns[1:]
		return c, nil
	}
	<-l.closed
	if l.netErr {
		return nil, net.ErrClosed
	}
	return nil, errListenerClosed
}
func (l *c18Listener) Close() error {
	if !l.isClosed { // (a real listener serialises Close internally)
		l.isClosed = true
		close(l.closed)
	}
	return nil
}
func (l *c18Listener) Addr() net.Addr { return c18Addr("0.0.0.0:1") }

var errListenerClosed = errors.New("use of closed network connection")

//verif:replace (*net.Resolver).LookupIPAddr
func stubLookupIPAddr(r *net.Resolver, ctx context.Context, host string) ([]net.IPAddr, error) {
	return []net.IPAddr{{IP: net.IP{10, 0, 0, 1}}}, nil
}

//verif:replace (*net.IPAddr).String
func stubIPAddrString(a *net.IPAddr) string { return "10.0.0.1" }

//verif:replace go.sia.tech/core/gateway.Accept
func stubGatewayAccept(conn net.Conn, h gateway.Header) (*gateway.Transport, error) {
	c := conn.(*c18Conn)
	vapi.Yield() // the handshake takes several round trips
	return &gateway.Transport{Addr: string(c.addr), UniqueID: gateway.UniqueID{c.id}}, nil
}

// VerifH_C18_inbound_cap: connections accepted at once never take the number
// of inbound peers above MaxInboundPeers.
//
//verif:harness prop=C18 tier=quick replay=interp go=sched preempt=2 require=connected,refused bounds="MaxInboundPeers 1..2, 0..1 inbound peer already connected, 2..3 simultaneous inbound connections; ≤2 delays"
func VerifH_C18_inbound_cap() {
	w := newC18(2, 0)
	s := w.s
	s.config.MaxInboundPeers = vapi.Int("max_inbound", 1, 2)
	s.config.ConnectTimeout = time.Second
	w.holdPeers = true
	if vapi.Bool("one_connected") {
		p := w.peer("old:1", "10.0.9", 0)
		p.Inbound = true
		go s.runPeer(p)
	}
	nConn := vapi.Int("conns", 2, 3)
	l := &c18Listener{closed: make(chan struct{})}
	for k := 0; k < nConn; k++ {
		l.conns = append(l.conns, &c18Conn{addr: c18Addr("10.0.0.1:" + string(rune('1'+k))), id: byte(k + 1)})
	}
	s.l = l
	go s.acceptLoop(context.Background())
	n := vapi.WaitIdle()
	_ = n
	in := 0
	for _, p := range s.peers {
		if p.Inbound {
			in++
		}
	}
	vapi.Assert("cap.inbound-at-rest", in <= s.config.MaxInboundPeers)
	if in > 0 {
		vapi.Reach("connected")
	}
	if w.refused > 0 || in < nConn {
		vapi.Reach("refused")
	}
	// shut down: everything must unwind
	l.Close()
	s.tg.Stop()
	n = vapi.WaitIdle()
	vapi.Note("blocked", vapi.Blocked())
	vapi.Assert("cap.shutdown-no-goroutine-left", n == 0)
	vapi.Assert("cap.shutdown-peers-removed", len(s.peers) == 0)
}

// ---- Run / Close ---------------------------------------------------------------

//verif:replace (*go.sia.tech/coreutils/syncer.Syncer).peerLoop
func stubPeerLoop(s *Syncer, ctx context.Context) error {
	if c18 == nil {
		return s.peerLoop(ctx)
	}
	c18.loopsStarted++
	<-ctx.Done()
	return nil // as the real loop does
}

//verif:replace (*go.sia.tech/coreutils/syncer.Syncer).syncLoop
func stubSyncLoop(s *Syncer, ctx context.Context) error {
	if c18 == nil {
		return s.syncLoop(ctx)
	}
	<-ctx.Done()
	return nil // as the real loop does
}

// runRegistered: Run got past its AddContext (its loops were started).
func (w *c18World) runRegistered() bool { return w.loopsStarted > 0 }

// VerifH_C18_run_close: Syncer.Run with its accept loop, 0..2 inbound
// connections becoming peers, and Close at an arbitrary moment. peerLoop and
// syncLoop are reduced to "wait for shutdown" (their bodies are tickers and
// network calls).
//
//verif:harness prop=C18 tier=quick replay=interp go=sched preempt=2 require=closed bounds="0..2 inbound connections, Close concurrent with Run, the accept loop and the peers; ≤2 delays"
func VerifH_C18_run_close() {
	w := newC18(1, 0)
	s := w.s
	s.config.MaxInboundPeers = 4
	s.config.ConnectTimeout = time.Second
	w.holdPeers = true
	l := &c18Listener{closed: make(chan struct{}), netErr: true}
	nConn := vapi.Int("conns", 0, 2)
	for k := 0; k < nConn; k++ {
		l.conns = append(l.conns, &c18Conn{addr: c18Addr("10.0.0.1:" + string(rune('1'+k))), id: byte(k + 1)})
	}
	s.l = l
	var runErr error
	ran := false
	go func() {
		runErr = s.Run()
		ran = true
	}()
	vapi.Yield()
	err := s.Close()
	vapi.Assert("run.close-ok", err == nil)
	// Close waits for the thread group: Run (if it got as far as registering),
	// its loops and every peer
	vapi.Assert("run.close-waits-for-run", ran || !w.runRegistered())
	vapi.Assert("run.close-leaves-no-peer", len(s.peers) == 0)
	vapi.Reach("closed")
	left := vapi.WaitIdle()
	vapi.Note("blocked", vapi.Blocked())
	vapi.Assert("run.no-goroutine-left", left == 0)
	vapi.Assert("run.returned", ran)
	vapi.Assert("run.graceful", runErr == nil || errors.Is(runErr, threadgroup.ErrClosed))
	// afterwards nothing new is accepted
	_, err = s.Connect(context.Background(), "10.0.0.9:1")
	vapi.Assert("run.connect-after-close-rejected", err != nil)
}

//verif:harness prop=C18 tier=thorough replay=interp go=sched preempt=3 require=quiesced,rejected-by-subnet,back-pressure bounds="as VerifH_C18_inflight with ≤3 delays"
func VerifH_C18_inflight_deep() { VerifH_C18_inflight() }

//verif:harness prop=C18 tier=thorough replay=interp go=sched preempt=4 require=stopped bounds="as VerifH_C18_shutdown with ≤4 delays"
func VerifH_C18_shutdown_deep() { VerifH_C18_shutdown() }

//verif:harness prop=C18 tier=thorough replay=interp go=sched preempt=3 require=connected,refused bounds="as VerifH_C18_inbound_cap with ≤3 delays"
func VerifH_C18_inbound_cap_deep() { VerifH_C18_inbound_cap() }

//verif:harness prop=C18 tier=thorough replay=interp go=sched preempt=4 require=closed bounds="as VerifH_C18_run_close with ≤4 delays"
func VerifH_C18_run_close_deep() { VerifH_C18_run_close() }

// VerifH_C18_limit_options: the limit options take effect for every value, in
// particular "0 or negative disables the per-subnet limit": with the option
// applied to the default configuration, acquireInflight admits exactly
// min(k, n) of k requests for n > 0 and all of them for n <= 0.
//
//verif:harness prop=C18 tier=quick replay=interp require=disabled,limited bounds="WithMaxInflightRPCsPerSubnet(n) for every 64-bit n, applied to a configuration holding the default; 1..4 slot requests for one subnet"
func VerifH_C18_limit_options() {
	w := newC18(1, 2) // (2 stands for the built-in default of 256: small enough to be seen)
	s := w.s
	n := int(vapi.I64("subnet-limit"))
	WithMaxInflightRPCsPerSubnet(n)(&s.config)
	k := vapi.Int("requests", 1, 4)
	admitted := 0
	for i := 0; i < k; i++ {
		if s.acquireInflight("10.0.0.0/24") {
			admitted++
		}
	}
	if n <= 0 {
		vapi.Reach("disabled")
		vapi.Assert("options.non-positive-disables-the-subnet-limit", admitted == k)
	} else {
		vapi.Reach("limited")
		want := k
		if n < k {
			want = n
		}
		vapi.Assert("options.subnet-limit-is-n", admitted == want)
	}
	for i := 0; i < admitted; i++ {
		s.releaseInflight("10.0.0.0/24")
	}
	vapi.Assert("options.slots-returned", len(s.inflightSubnet) == 0)
}

// VerifH_C18_subnet_slots: the per-subnet slot counter as a state machine.
// Any sequence of slot requests and returns (a return only for a slot that
// is held) on two subnets: a request is admitted exactly when fewer than the
// limit are held for that subnet, so the number of handlers running for a
// subnet never exceeds the limit, however admissions and completions mix.
//
//verif:harness prop=C18 tier=quick replay=interp require=admitted,refused,returned bounds="MaxInflightRPCsPerSubnet 1..3; every sequence of ≤6 acquire/release operations over two subnet keys"
func VerifH_C18_subnet_slots() { verifSubnetSlots(6) }

//verif:harness prop=C18 tier=thorough replay=interp require=admitted,refused,returned bounds="as VerifH_C18_subnet_slots with sequences of ≤9 operations"
func VerifH_C18_subnet_slots_deep() { verifSubnetSlots(9) }

func verifSubnetSlots(maxOps int) {
	limit := vapi.Int("per_subnet", 1, 3)
	w := newC18(1, limit)
	s := w.s
	keys := []string{"10.0.0.0/24", "10.0.1.0/24"}
	held := []int{0, 0}
	n := vapi.Int("ops", 1, maxOps)
	for i := 0; i < n; i++ {
		k := vapi.Int("key", 0, 1)
		if held[k] > 0 && vapi.Bool("release") {
			s.releaseInflight(keys[k])
			held[k]--
			vapi.Reach("returned")
			continue
		}
		ok := s.acquireInflight(keys[k])
		vapi.Assert("slots.admitted-iff-below-the-limit", ok == (held[k] < limit))
		if ok {
			held[k]++
			vapi.Reach("admitted")
		} else {
			vapi.Reach("refused")
		}
		vapi.Assert("slots.never-above-the-limit", held[k] <= limit)
	}
	for k := range keys {
		for ; held[k] > 0; held[k]-- {
			s.releaseInflight(keys[k])
		}
	}
	vapi.Assert("slots.all-returned", len(s.inflightSubnet) == 0)
}
