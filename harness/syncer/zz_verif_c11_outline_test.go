package syncer

// C11 (relayed block outlines): the node completes an outline from its own
// pool and from what the relaying peer sends for the missing transactions,
// and only ever submits a block that is exactly the announced one.

import (
	"errors"
	"time"

	"go.sia.tech/core/consensus"
	"go.sia.tech/core/gateway"
	"go.sia.tech/core/types"
	"go.sia.tech/coreutils/internal/vapi"
)

// VerifH_C11_relay_outline
//
//verif:harness prop=C11 tier=quick replay=interp go=skip require=added,banned,resync bounds="outline of a block with 1..2 v2 transactions on the tip / a known side block / an unknown parent; each transaction in the node's pool or missing; the peer answers the request for missing transactions correctly, with other transactions, with nothing, or fails; work sufficient or not; AddBlocks accepts or rejects; the peer still connected or already gone when the verdict is reached"
func VerifH_C11_relay_outline() {
	s, cm, pm, p := newC11()
	s.config.SendTransactionsTimeout = time.Second
	net := cm.tip.Network
	nTx := vapi.Int("txns", 1, 2)
	var txns []types.V2Transaction
	for k := 0; k < nTx; k++ {
		txns = append(txns, types.V2Transaction{ArbitraryData: []byte{byte(k + 1)}, MinerFee: types.NewCurrency64(uint64(k + 3))})
	}
	parentSel := vapi.Int("parent", 0, 2)
	var parentState consensus.State
	switch parentSel {
	case 0:
		parentState = cm.tip
	case 1:
		parentState = cm.known[types.BlockID{0x51}]
	case 2:
		parentState = consensus.State{Network: net, Index: types.ChainIndex{Height: 10, ID: types.BlockID{0xee}}}
	}
	b := types.Block{ParentID: parentState.Index.ID, Nonce: 77, Timestamp: time.Unix(1700000000, 0),
		MinerPayouts: []types.SiacoinOutput{{Value: types.NewCurrency64(1), Address: types.Address{9}}},
		V2:           &types.V2BlockData{Height: parentState.Index.Height + 1, Transactions: txns}}
	b.V2.Commitment = parentState.Commitment(b.MinerPayouts[0].Address, nil, b.V2Transactions())
	// which transactions the node has in its pool
	var pooled []types.V2Transaction
	var missingTx []types.V2Transaction
	for k := range txns {
		if vapi.Bool("in-pool") {
			pooled = append(pooled, txns[k])
		} else {
			missingTx = append(missingTx, txns[k])
		}
	}
	cm.partial = pooled
	outline := gateway.OutlineBlock(b, nil, txns) // every transaction by hash only
	c11.lowWork = vapi.Bool("insufficient-work")
	cm.addErr = vapi.Bool("add-rejects")
	readErr := vapi.Bool("read-error")
	c11.request = func(r gateway.Object) error {
		if readErr {
			return errors.New("read failed")
		}
		r.(*gateway.RPCRelayV2BlockOutline).Block = outline
		return nil
	}
	answer := vapi.Int("answer", 0, 3) // correct, other transactions, nothing, transport error
	asked := 0
	c11.respond = func(r gateway.Object) error {
		rr, ok := r.(*gateway.RPCSendTransactions)
		if !ok {
			return errors.New("unexpected rpc")
		}
		asked++
		vapi.Assert("outline.asks-only-for-what-is-missing", len(rr.Hashes) == len(missingTx))
		switch answer {
		case 0:
			rr.V2Transactions = append([]types.V2Transaction(nil), missingTx...)
		case 1:
			rr.V2Transactions = []types.V2Transaction{{ArbitraryData: []byte{0x66}}}
		case 2:
		case 3:
			return errors.New("stream reset")
		}
		return nil
	}
	// the peer may hang up before the node has reached its verdict: the
	// verdict is reported all the same
	if vapi.Bool("peer-already-gone") {
		p.err = errors.New("connection closed")
	}
	err := s.handleRPC(types.NewSpecifier("RelayV2Outline"), nil, p)
	_ = err
	banned := len(pm.bans) > 0
	attached := !readErr && parentSel == 0
	needPeer := len(missingTx) > 0
	// nothing but the announced block, complete, is ever submitted
	for _, batch := range cm.added {
		vapi.Assert("outline.submits-one-block", len(batch) == 1)
		if len(batch) == 1 {
			got := batch[0]
			vapi.Assert("outline.submitted-block-is-the-announced-one", got.ID() == b.ID() && len(got.V2Transactions()) == nTx)
			for k := range got.V2Transactions() {
				vapi.Assert("outline.submitted-transactions-are-the-announced-ones", k < nTx && got.V2.Transactions[k].ID() == txns[k].ID())
			}
		}
	}
	if !attached || c11.lowWork {
		vapi.Assert("outline.unattached-or-weak-not-submitted", len(cm.added) == 0 && asked == 0)
	}
	switch {
	case readErr:
		vapi.Assert("outline.read-error-no-ban", !banned)
	case parentSel == 2:
		vapi.Assert("outline.unknown-parent-resync", !banned && !p.Synced())
		vapi.Reach("resync")
	case c11.lowWork:
		vapi.Assert("outline.insufficient-work-ban", banned)
		vapi.Reach("banned")
	case parentSel == 1:
		vapi.Assert("outline.side-chain-resync", !banned && !p.Synced())
	default:
		complete := !needPeer || answer == 0
		switch {
		case needPeer && answer == 3:
			vapi.Assert("outline.transport-failure-resync", !banned && !p.Synced() && len(cm.added) == 0)
		case !complete:
			vapi.Assert("outline.wrong-missing-transactions-ban", banned && len(cm.added) == 0)
		case cm.addErr:
			vapi.Assert("outline.invalid-block-ban", banned && len(cm.added) == 1)
		default:
			vapi.Assert("outline.good-block-added", !banned && len(cm.added) == 1 && p.Synced())
			vapi.Reach("added")
		}
	}
}
