package syncer

// C11 (instant-sync bootstrap): RetrieveCheckpoint over a mix of honest and
// Byzantine peers, every interleaving (within the delay bound) of the dialling
// goroutines: a Byzantine peer that fails fast or serves a bogus checkpoint
// cannot keep the node from the honest peer's answer.

import (
	"context"
	"errors"
	"net"

	"go.sia.tech/core/consensus"
	"go.sia.tech/core/gateway"
	"go.sia.tech/core/types"
	"go.sia.tech/coreutils/internal/vapi"
)

type retrieveWorld struct {
	conns map[string]*c18Conn
	kind  map[string]int // 0 honest, 1 bogus checkpoint, 2 transport error, 3 refuses the connection
	state consensus.State
	block types.Block
}

var rw *retrieveWorld

//verif:replace (*net.Dialer).DialContext
func stubDialContext(d *net.Dialer, ctx context.Context, network, addr string) (net.Conn, error) {
	if rw == nil {
		return nil, errors.New("verif: no network")
	}
	vapi.Yield()
	if ctx.Err() != nil {
		return nil, ctx.Err()
	}
	if rw.kind[addr] == 3 {
		return nil, errors.New("connection refused")
	}
	c := &c18Conn{addr: c18Addr(addr)}
	rw.conns[addr] = c
	return c, nil
}

//verif:replace go.sia.tech/core/gateway.Dial
func stubGatewayDial(conn net.Conn, h gateway.Header) (*gateway.Transport, error) {
	c := conn.(*c18Conn)
	vapi.Yield() // the handshake takes several round trips
	if c.closed {
		return nil, errors.New("use of closed network connection")
	}
	return &gateway.Transport{Addr: string(c.addr)}, nil
}

// VerifH_C11_retrieve_checkpoint
//
//verif:harness prop=C11 tier=quick replay=interp go=sched preempt=2 require=retrieved,none bounds="2 peers, each honest / serving a checkpoint with a wrong commitment / failing in transit / refusing the connection; every interleaving of the two dialling goroutines within ≤2 delays"
func VerifH_C11_retrieve_checkpoint() {
	_, _, _, _ = newC11()
	n := &consensus.Network{Name: "verif"}
	parent := consensus.State{Index: types.ChainIndex{Height: 20, ID: types.BlockID{0x20}}}
	b := types.Block{ParentID: parent.Index.ID, Nonce: 9, MinerPayouts: []types.SiacoinOutput{{Value: types.NewCurrency64(5), Address: types.Address{1}}}, V2: &types.V2BlockData{Height: 21}}
	st := parent
	st.Network = n
	b.V2.Commitment = st.Commitment(b.MinerPayouts[0].Address, b.Transactions, b.V2Transactions())
	index := types.ChainIndex{Height: 21, ID: b.ID()}
	rw = &retrieveWorld{conns: map[string]*c18Conn{}, kind: map[string]int{}, state: parent, block: b}
	addrs := []string{"10.0.0.1:1", "10.0.0.2:1"}
	anyHonest := false
	for _, a := range addrs {
		rw.kind[a] = vapi.Int("peer-kind", 0, 3)
		anyHonest = anyHonest || rw.kind[a] == 0
	}
	c11.realCall = false
	c11.respondPeer = func(p *Peer, r gateway.Object) error {
		rr, ok := r.(*gateway.RPCSendCheckpoint)
		if !ok {
			return errors.New("unexpected rpc")
		}
		vapi.Yield() // the answer takes time
		if c := rw.conns[p.t.Addr]; c != nil && c.closed {
			return errors.New("use of closed network connection")
		}
		switch rw.kind[p.t.Addr] {
		case 0:
			rr.State, rr.Block = rw.state, rw.block
		case 1:
			bogus := rw.block
			v2 := *bogus.V2
			v2.Commitment = types.Hash256{0xbd}
			bogus.V2 = &v2
			rr.State, rr.Block = rw.state, bogus
		default:
			return errors.New("stream reset")
		}
		return nil
	}
	cs, got, err := RetrieveCheckpoint(context.Background(), addrs, index, n, types.BlockID{0x01})
	if err == nil {
		vapi.Reach("retrieved")
		vapi.Assert("retrieve.only-a-genuine-checkpoint", got.ID() == index.ID && cs.Index == parent.Index && got.V2 != nil && got.V2.Commitment == b.V2.Commitment)
	} else {
		vapi.Reach("none")
	}
	// an honest peer among them is enough
	vapi.Assert("retrieve.honest-peer-suffices", !anyHonest || err == nil)
	left := vapi.WaitIdle()
	vapi.Note("blocked", vapi.Blocked())
	vapi.Assert("retrieve.no-goroutine-left", left == 0)
	rw = nil
}
