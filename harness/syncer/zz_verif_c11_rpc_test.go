package syncer

// C11 (a silent peer cannot stall the node): every outgoing RPC puts a finite
// deadline, at most the configured timeout away, on its stream before any
// blocking I/O; callRPCContext also returns when its context ends.

import (
	"context"
	"errors"
	"time"

	"go.sia.tech/core/gateway"
	"go.sia.tech/coreutils/internal/vapi"
)

type rpcWorld struct {
	deadline    time.Time
	deadlineSet bool
	ioWithout   bool // I/O attempted while no finite deadline was in force
	ioTooLate   bool // ... or one later than now+timeout
	limit       time.Time
	silent      bool
	release     chan struct{}
	closed      bool
}

var rpcW *rpcWorld

func (w *rpcWorld) io() {
	if !w.deadlineSet || w.deadline.IsZero() {
		w.ioWithout = true
	} else if w.deadline.After(w.limit) {
		w.ioTooLate = true
	}
}

//verif:replace (*go.sia.tech/core/gateway.Transport).DialStream
func stubDialStream(t *gateway.Transport) (*gateway.Stream, error) { return &gateway.Stream{}, nil }

//verif:replace (*go.sia.tech/core/gateway.Stream).WriteID
func stubWriteID(s *gateway.Stream, r gateway.Object) error { rpcW.io(); return nil }

//verif:replace (*go.sia.tech/core/gateway.Stream).WriteRequest
func stubWriteRequest(s *gateway.Stream, r gateway.Object) error { rpcW.io(); return nil }

//verif:replace (*go.sia.tech/core/gateway.Stream).ReadResponse
func stubReadResponse(s *gateway.Stream, r gateway.Object) error {
	rpcW.io()
	if rpcW.silent {
		// the peer never answers: only the deadline (or Close) ends the read
		<-rpcW.release
		return errors.New("i/o timeout")
	}
	return nil
}

// VerifH_C11_rpc_deadline: callRPC and callRPCContext.
//
//verif:harness prop=C11 tier=quick replay=interp go=sched preempt=1 require=answered,cancelled bounds="callRPC / callRPCContext; context without deadline, with a later or an earlier deadline, or cancelled while the peer is silent; timeout 1s / 90s / 1h"
func VerifH_C11_rpc_deadline() {
	_, _, _, p := newC11()
	rpcW = &rpcWorld{release: make(chan struct{})}
	c11.realCall = true
	timeout := []time.Duration{time.Second, 90 * time.Second, time.Hour}[vapi.Int("timeout", 0, 2)]
	rpcW.limit = time.Now().Add(timeout)
	r := &gateway.RPCSendV2Blocks{Max: 1}
	if vapi.Bool("plain_call") {
		err := p.callRPC(r, timeout)
		vapi.Assert("rpc.answered", err == nil)
		vapi.Assert("rpc.finite-deadline-before-io", !rpcW.ioWithout)
		vapi.Assert("rpc.deadline-within-timeout", !rpcW.ioTooLate)
		vapi.Reach("answered")
		return
	}
	ctx, cancel := context.Background(), context.CancelFunc(func() {})
	switch vapi.Int("ctx", 0, 2) {
	case 1:
		ctx, cancel = context.WithDeadline(ctx, time.Now().Add(2*time.Hour))
	case 2:
		ctx, cancel = context.WithCancel(ctx)
	}
	defer cancel()
	rpcW.silent = vapi.Bool("peer_silent")
	if rpcW.silent {
		// somebody gives up on the round; the stream's Close ends the read
		go func() { cancel(); close(rpcW.release) }()
	}
	err := p.callRPCContext(ctx, r, timeout)
	vapi.Assert("rpc.finite-deadline-before-io", !rpcW.ioWithout)
	vapi.Assert("rpc.deadline-within-timeout", !rpcW.ioTooLate)
	if rpcW.silent {
		vapi.Reach("cancelled")
		vapi.Assert("rpc.silent-peer-yields-error", err != nil)
	} else {
		vapi.Assert("rpc.answered", err == nil)
	}
	left := vapi.WaitIdle()
	vapi.Assert("rpc.no-goroutine-left", left == 0)
}
