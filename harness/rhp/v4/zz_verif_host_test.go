package rhp_test

// Host-side harnesses (C08, C09, C15): the real rhp4 server handlers and the
// real reference contractor, driven over a scripted connection by a
// Dolev-Yao renter written in the harness (honest message construction with
// core's own functions, then a symbolic corruption / abort selector).

import (
	"bytes"
	"errors"
	"io"
	"net"
	"time"

	"go.sia.tech/core/consensus"
	proto4 "go.sia.tech/core/rhp/v4"
	"go.sia.tech/core/types"
	"go.sia.tech/coreutils/internal/vapi"
	rhp4 "go.sia.tech/coreutils/rhp/v4"
	"go.sia.tech/coreutils/testutil"
)

// scriptConn is a net.Conn whose peer is a callback: whenever the handler
// reads and nothing is buffered, respond() is asked for the next message given
// everything the handler has written so far. A nil answer means the peer
// stopped sending (EOF).
type scriptConn struct {
	in      bytes.Buffer
	out     bytes.Buffer
	respond func(c *scriptConn) []byte
	round   int
	closed  bool
}

func (c *scriptConn) Read(p []byte) (int, error) {
	if c.in.Len() == 0 {
		if c.respond == nil {
			return 0, io.EOF
		}
		msg := c.respond(c)
		c.round++
		if msg == nil {
			return 0, io.EOF
		}
		c.in.Write(msg)
	}
	return c.in.Read(p)
}
func (c *scriptConn) Write(p []byte) (int, error)        { return c.out.Write(p) }
func (c *scriptConn) Close() error                       { c.closed = true; return nil }
func (c *scriptConn) LocalAddr() net.Addr                { return nil }
func (c *scriptConn) RemoteAddr() net.Addr               { return nil }
func (c *scriptConn) SetDeadline(t time.Time) error      { return nil }
func (c *scriptConn) SetReadDeadline(t time.Time) error  { return nil }
func (c *scriptConn) SetWriteDeadline(t time.Time) error { return nil }

// encReq encodes a request body (without the RPC id, which the dispatcher
// would have consumed).
func encReq(id types.Specifier, o proto4.Object) []byte {
	var buf bytes.Buffer
	if err := proto4.WriteRequest(&buf, id, o); err != nil {
		panic(err)
	}
	return buf.Bytes()[16:] // strip the specifier
}

func encResp(o proto4.Object) []byte {
	var buf bytes.Buffer
	if err := proto4.WriteResponse(&buf, o); err != nil {
		panic(err)
	}
	return buf.Bytes()
}

// vChain is the server's view of the chain.
type vChain struct{ tip types.ChainIndex }

func (c *vChain) Tip() types.ChainIndex     { return c.tip }
func (c *vChain) TipState() consensus.State { return consensus.State{Index: c.tip} }
func (c *vChain) V2TransactionSet(basis types.ChainIndex, txn types.V2Transaction) (types.ChainIndex, []types.V2Transaction, error) {
	return c.tip, []types.V2Transaction{txn}, nil
}
func (c *vChain) AddV2PoolTransactions(types.ChainIndex, []types.V2Transaction) (bool, error) {
	return false, nil
}
func (c *vChain) RecommendedFee() types.Currency { return types.NewCurrency64(1) }
func (c *vChain) UpdateV2TransactionSet(txns []types.V2Transaction, from, to types.ChainIndex) ([]types.V2Transaction, error) {
	return txns, nil
}

// vSectors is a recording sector store: HasSector answers from a table.
type vSectors struct {
	has    map[types.Hash256]bool
	reads  int
	stores int
	log    []string
}

func (s *vSectors) HasSector(root types.Hash256) (bool, error) { return s.has[root], nil }
func (s *vSectors) ReadSector(root types.Hash256, offset, length uint64) ([]byte, []types.Hash256, error) {
	s.reads++
	s.log = append(s.log, "read")
	return make([]byte, length), []types.Hash256{{1}}, nil
}
func (s *vSectors) StoreSector(root types.Hash256, data *[proto4.SectorSize]byte, subtrees []types.Hash256, expiration uint64) error {
	s.stores++
	s.log = append(s.log, "store")
	s.has[root] = true
	return nil
}

type vSettings struct{}

func (vSettings) RHP4Settings() proto4.HostSettings { return proto4.HostSettings{} }

// hostWorld is a server with one contract.
type hostWorld struct {
	hostKey, renterKey types.PrivateKey
	chain              *vChain
	contractor         *testutil.EphemeralContractor
	sectors            *vSectors
	server             *rhp4.Server
	id                 types.FileContractID
	fc                 types.V2FileContract
	roots              []types.Hash256
	prices             proto4.HostPrices
	unrevisable        bool
}

func keyFromByte(b byte) types.PrivateKey {
	seed := make([]byte, 32)
	seed[0] = b
	return types.NewPrivateKeyFromSeed(seed)
}

func rootN(k int) (h types.Hash256) {
	h[0], h[31] = byte(k+1), 0x5e
	return
}

// newHostWorld builds a host holding a contract with n sector roots whose
// payouts and revision number are symbolic.
func newHostWorld(n int) *hostWorld {
	w := &hostWorld{hostKey: keyFromByte(1), renterKey: keyFromByte(2)}
	hostFaultsOff = false
	w.chain = &vChain{tip: types.ChainIndex{Height: 50, ID: types.BlockID{7}}}
	// the contract may be past its proof height: then it must not be revised
	w.unrevisable = vapi.Bool("past-proof-height")
	ctip := w.chain.tip
	if w.unrevisable {
		ctip.Height = 100
	}
	w.contractor = testutil.VerifNewContractor(ctip)
	w.sectors = &vSectors{has: map[types.Hash256]bool{}}
	w.server = rhp4.NewServer(w.hostKey, w.chain, lockChecked{w.contractor}, nil, vSettings{}, w.sectors)
	for i := 0; i < n; i++ {
		w.roots = append(w.roots, rootN(i))
	}
	w.id = types.FileContractID{0xc0}
	renterVal := vapi.UBits("renterValue", 40)
	hostVal := vapi.UBits("hostValue", 40)
	missed := vapi.UBits("missedHostValue", 40)
	rev := vapi.U64("revisionNumber")
	vapi.Assume(rev < 1<<62)
	w.fc = types.V2FileContract{
		Capacity:         uint64(n) * proto4.SectorSize,
		Filesize:         uint64(n) * proto4.SectorSize,
		FileMerkleRoot:   proto4.MetaRoot(w.roots),
		ProofHeight:      100,
		ExpirationHeight: 110,
		RenterOutput:     types.SiacoinOutput{Value: types.NewCurrency64(renterVal), Address: types.Address{1}},
		HostOutput:       types.SiacoinOutput{Value: types.NewCurrency64(hostVal), Address: types.Address{2}},
		MissedHostValue:  types.NewCurrency64(missed),
		TotalCollateral:  types.NewCurrency64(missed),
		RenterPublicKey:  w.renterKey.PublicKey(),
		HostPublicKey:    w.hostKey.PublicKey(),
		RevisionNumber:   rev,
	}
	stored := append([]types.Hash256(nil), w.roots...)
	w.contractor.VerifSetContract(w.id, w.fc, stored)
	w.prices = w.signedPrices(w.hostKey, time.Now().Add(time.Hour))
	return w
}

func (w *hostWorld) signedPrices(key types.PrivateKey, validUntil time.Time) proto4.HostPrices {
	p := proto4.HostPrices{
		ContractPrice:   types.NewCurrency64(10),
		Collateral:      types.NewCurrency64(2),
		StoragePrice:    types.NewCurrency64(3),
		IngressPrice:    types.NewCurrency64(5),
		EgressPrice:     types.NewCurrency64(7),
		FreeSectorPrice: types.NewCurrency64(11),
		TipHeight:       50,
		ValidUntil:      validUntil,
	}
	p.Signature = key.SignHash(p.SigHash())
	return p
}

// corruptPrices applies the symbolic price-table corruption selector.
func (w *hostWorld) corruptPrices(p *proto4.HostPrices) (corrupted bool) {
	switch vapi.Int("prices", 0, 3) {
	case 1: // expired
		*p = w.signedPrices(w.hostKey, time.Now().Add(-time.Minute))
		return true
	case 2: // signed by somebody else
		*p = w.signedPrices(keyFromByte(9), time.Now().Add(time.Hour))
		return true
	case 3: // a price changed after signing
		p.FreeSectorPrice = types.NewCurrency64(0)
		p.EgressPrice = types.NewCurrency64(0)
		return true
	}
	return false
}

// arbitrarySig is a signature the adversary made up: assumed not to verify
// for (pk, h) — it cannot forge signatures of keys it does not hold, and for
// its own key this selector stands for "signed something else".
func arbitrarySig(name string, pk types.PublicKey, h types.Hash256) types.Signature {
	return types.Signature(vapi.ForgedSig(name))
}

type hostSnap struct {
	fc    types.V2FileContract
	roots []types.Hash256
	ok    bool
}

func (w *hostWorld) snap() hostSnap {
	fc, roots, ok := w.contractor.VerifContract(w.id)
	return hostSnap{fc: fc, roots: append([]types.Hash256(nil), roots...), ok: ok}
}

func sameRoots(a, b []types.Hash256) bool {
	if len(a) != len(b) {
		return false
	}
	for i := range a {
		if a[i] != b[i] {
			return false
		}
	}
	return true
}

func sameContract(a, b types.V2FileContract) bool { return a == b }

// checkCommit: the stored roots hash to the stored revision's root and size (C09).
func (w *hostWorld) checkCommit(tag string) {
	s := w.snap()
	vapi.Assert(tag+".commit.present", s.ok)
	vapi.Assert(tag+".commit.root", proto4.MetaRoot(s.roots) == s.fc.FileMerkleRoot)
	vapi.Assert(tag+".commit.size", uint64(len(s.roots))*proto4.SectorSize == s.fc.Filesize)
	vapi.Assert(tag+".commit.unlocked", !w.contractor.VerifLocked(w.id))
}

// checkRevision: what C08 demands of a persisted revision r of existing e.
func checkRevision(tag string, e, r types.V2FileContract, wantCost types.Currency) {
	vapi.Assert(tag+".rev.monotone", r.RevisionNumber > e.RevisionNumber)
	sh := consensus.State{}.ContractSigHash(r)
	vapi.Assert(tag+".rev.renter-signed", e.RenterPublicKey.VerifyHash(sh, r.RenterSignature))
	vapi.Assert(tag+".rev.host-signed", e.HostPublicKey.VerifyHash(sh, r.HostSignature))
	vapi.Assert(tag+".rev.frozen", r.RenterPublicKey == e.RenterPublicKey && r.HostPublicKey == e.HostPublicKey &&
		r.ProofHeight == e.ProofHeight && r.ExpirationHeight == e.ExpirationHeight && r.TotalCollateral == e.TotalCollateral &&
		r.RenterOutput.Address == e.RenterOutput.Address && r.HostOutput.Address == e.HostOutput.Address)
	vapi.Assert(tag+".rev.no-value-to-renter", r.RenterOutput.Value.Cmp(e.RenterOutput.Value) <= 0)
	vapi.Assert(tag+".rev.conserve", r.RenterOutput.Value.Add(r.HostOutput.Value) == e.RenterOutput.Value.Add(e.HostOutput.Value))
	vapi.Assert(tag+".rev.charge", e.RenterOutput.Value.Sub(r.RenterOutput.Value) == wantCost)
}

// swapRemove is the reference list model of freeing sectors: indices
// de-duplicated and processed in descending order, each removed by swapping
// with the last element.
func swapRemove(roots []types.Hash256, indices []uint64) []types.Hash256 {
	out := append([]types.Hash256(nil), roots...)
	idx := append([]uint64(nil), indices...)
	for i := range idx { // sort descending
		for j := i + 1; j < len(idx); j++ {
			if idx[j] > idx[i] {
				idx[i], idx[j] = idx[j], idx[i]
			}
		}
	}
	var prev uint64
	for k, i := range idx {
		if k > 0 && i == prev {
			continue
		}
		prev = i
		out[i] = out[len(out)-1]
		out = out[:len(out)-1]
	}
	return out
}

// VerifH_C09_free: free-sectors against an adversarial renter: whatever the
// request (indices in any order, out of range, duplicated; bad challenge,
// bad prices) and wherever the renter stops or lies in the second round, the
// host's roots and revision stay consistent; a failed RPC changes nothing; a
// successful one removes exactly the requested sectors as the list model does.
//
//verif:harness prop=C08,C09 tier=quick replay=native require=freed,aborted,rejected bounds="contract of 1..4 sectors; 1..2 raw indices, each any 64-bit value (any order, duplicates, out of range); selectors: challenge signature valid/forged, price table valid/expired/foreign/tampered, second round honest/forged signature/absent; payouts and revision number symbolic"
func VerifH_C09_free() { verifFree("free") }

func verifFree(tag string) {
	n := vapi.Int("sectors", 1, 4)
	w := newHostWorld(n)
	k := vapi.Int("nIndices", 1, 2)
	indices := make([]uint64, k)
	for i := range indices {
		// untrusted input: any 64-bit value
		indices[i] = vapi.U64("index")
	}
	req := proto4.RPCFreeSectorsRequest{ContractID: w.id, Prices: w.prices, Indices: indices}
	badPrices := w.corruptPrices(&req.Prices)
	chHash := req.ChallengeSigHash(w.fc.RevisionNumber + 1)
	badChallenge := vapi.Bool("forge-challenge")
	if badChallenge {
		req.ChallengeSignature = arbitrarySig("challenge", w.fc.RenterPublicKey, chHash)
	} else {
		req.ChallengeSignature = w.renterKey.SignHash(chHash)
	}
	second := vapi.Int("second-round", 0, 2) // 0 honest, 1 forged signature, 2 absent
	conn := &scriptConn{}
	conn.in.Write(encReq(proto4.RPCFreeSectorsID, &req))
	conn.respond = func(c *scriptConn) []byte {
		if c.round > 0 || second == 2 {
			return nil
		}
		var resp proto4.RPCFreeSectorsResponse
		if err := proto4.ReadResponse(bytes.NewReader(c.out.Bytes()), &resp); err != nil {
			return nil
		}
		rev, _, err := proto4.ReviseForFreeSectors(w.fc, req.Prices, resp.NewMerkleRoot, len(indices))
		if err != nil {
			return nil
		}
		sh := consensus.State{}.ContractSigHash(rev)
		sig := w.renterKey.SignHash(sh)
		if second == 1 {
			sig = arbitrarySig("revsig", w.fc.RenterPublicKey, sh)
		}
		return encResp(&proto4.RPCFreeSectorsSecondResponse{RenterSignature: sig})
	}
	before := w.snap()
	err := w.server.VerifHandle("free", conn)
	after := w.snap()

	w.checkCommit(tag)
	// is the request well-formed by the protocol's own rules?
	wellFormed := true
	seen := map[uint64]bool{}
	for _, i := range indices {
		if i >= uint64(n) || seen[i] {
			wellFormed = false
		}
		seen[i] = true
	}
	if err != nil {
		vapi.Assert(tag+".abort-clean.revision", sameContract(before.fc, after.fc))
		vapi.Assert(tag+".abort-clean.roots", sameRoots(before.roots, after.roots))
		vapi.Assert(tag+".abort-clean.no-signature-released", !releasedFinal(conn.out.Bytes(), &proto4.RPCFreeSectorsResponse{}, &proto4.RPCFreeSectorsThirdResponse{}))
		if badPrices || badChallenge || !wellFormed {
			vapi.Reach("rejected")
		} else {
			vapi.Reach("aborted")
		}
		return
	}
	vapi.Reach("freed")
	vapi.Assert(tag+".gate", !badPrices && !badChallenge && wellFormed && second == 0 && !w.unrevisable)
	vapi.Assert(tag+".model", sameRoots(after.roots, swapRemove(w.roots, indices)) || !descendingDistinct(indices))
	checkRevision(tag, before.fc, after.fc, w.prices.RPCFreeSectorsCost(len(indices)).RenterCost())
}

func descendingDistinct(idx []uint64) bool {
	for i := 1; i < len(idx); i++ {
		if idx[i] >= idx[i-1] {
			return false
		}
	}
	return true
}

func rhp4NewServer(w *hostWorld) *rhp4.Server {
	return rhp4.NewServer(w.hostKey, w.chain, lockChecked{w.contractor}, nil, vSettings{}, w.sectors)
}

// lockChecked: every write to a contract happens while the handler holds the
// contract's lock (this is what serialises RPCs on one contract: a handler
// that let go of the lock before persisting could straddle a renewal).
//
// It also injects the one fault a contract store can have: a write that fails
// (symbolic, decided when the handler gets there) and changes nothing.
type lockChecked struct{ *testutil.EphemeralContractor }

var errInjectedStore = errors.New("injected: contract store failure")

// hostFaultsOff switches the injected store failure off (harnesses whose
// arithmetic is too heavy to carry another branch).
var hostFaultsOff bool

func persistFails() bool { return !hostFaultsOff && vapi.Bool("persist-fails") }

// releasedFinal: did the handler's output, after the intermediate response
// (if any), carry a successful final response - the one with the host's
// signature over the new revision?
func releasedFinal(out []byte, intermediate, final proto4.Object) bool {
	r := bytes.NewReader(out)
	if intermediate != nil && proto4.ReadResponse(r, intermediate) != nil {
		return false
	}
	return proto4.ReadResponse(r, final) == nil
}

func (c lockChecked) ReviseV2Contract(id types.FileContractID, rev types.V2FileContract, roots []types.Hash256, u proto4.Usage) error {
	vapi.Assert("persist.contract-locked", c.VerifLocked(id))
	if persistFails() {
		return errInjectedStore
	}
	return c.EphemeralContractor.ReviseV2Contract(id, rev, roots, u)
}
func (c lockChecked) CreditAccountsWithContract(d []proto4.AccountDeposit, id types.FileContractID, rev types.V2FileContract, u proto4.Usage) ([]types.Currency, error) {
	vapi.Assert("persist.contract-locked", c.VerifLocked(id))
	if persistFails() {
		return nil, errInjectedStore
	}
	return c.EphemeralContractor.CreditAccountsWithContract(d, id, rev, u)
}
func (c lockChecked) CreditPoolsWithContract(d []proto4.AccountDeposit, id types.FileContractID, rev types.V2FileContract, u proto4.Usage) ([]types.Currency, error) {
	vapi.Assert("persist.contract-locked", c.VerifLocked(id))
	if persistFails() {
		return nil, errInjectedStore
	}
	return c.EphemeralContractor.CreditPoolsWithContract(d, id, rev, u)
}
