package rhp_test

// Renter-side harnesses (C10, C09 client normalisation): the real client RPC
// functions and core's real proof verifiers against a scripted host that
// answers honestly and then corrupts one thing chosen symbolically (a root, a
// proof node, a count, a Merkle root, a signature, the charged amount).

import (
	"bytes"
	"context"
	"net"
	"time"

	"go.sia.tech/core/consensus"
	proto4 "go.sia.tech/core/rhp/v4"
	"go.sia.tech/core/types"
	"go.sia.tech/coreutils/internal/vapi"
	rhp4 "go.sia.tech/coreutils/rhp/v4"
)

type vTransport struct {
	conn    *scriptConn
	hostKey types.PublicKey
	dials   int
}

func (t *vTransport) DialStream(ctx context.Context) (net.Conn, error) { t.dials++; return t.conn, nil }
func (t *vTransport) FrameSize() int                                   { return 1440 }
func (t *vTransport) PeerKey() types.PublicKey                         { return t.hostKey }
func (t *vTransport) Close() error                                     { return nil }

type clientWorld struct {
	hostKey, renterKey types.PrivateKey
	impKey             types.PrivateKey
	roots              []types.Hash256
	contract           rhp4.ContractRevision
	prices             proto4.HostPrices
	cs                 consensus.State
	t                  *vTransport
}

func newClientWorld(n int) *clientWorld {
	w := &clientWorld{hostKey: keyFromByte(1), renterKey: keyFromByte(2)}
	for i := 0; i < n; i++ {
		w.roots = append(w.roots, rootN(i))
	}
	// the contract may have more capacity than data (sectors were freed before)
	slack := uint64(vapi.Int("capacity-slack-sectors", 0, 1))
	fc := types.V2FileContract{
		Capacity:         (uint64(n) + slack) * proto4.SectorSize,
		Filesize:         uint64(n) * proto4.SectorSize,
		FileMerkleRoot:   proto4.MetaRoot(w.roots),
		ProofHeight:      100,
		ExpirationHeight: 110,
		RenterOutput:     types.SiacoinOutput{Value: types.NewCurrency64(1 << 50), Address: types.Address{1}},
		HostOutput:       types.SiacoinOutput{Value: types.NewCurrency64(1 << 30), Address: types.Address{2}},
		MissedHostValue:  types.NewCurrency64(1 << 45),
		TotalCollateral:  types.NewCurrency64(1 << 45),
		RenterPublicKey:  w.renterKey.PublicKey(),
		HostPublicKey:    w.hostKey.PublicKey(),
		RevisionNumber:   7,
	}
	w.contract = rhp4.ContractRevision{ID: types.FileContractID{0xc0}, Revision: fc}
	hw := &hostWorld{hostKey: w.hostKey}
	w.prices = hw.signedPrices(w.hostKey, time.Now().Add(time.Hour))
	w.t = &vTransport{conn: &scriptConn{}, hostKey: w.hostKey.PublicKey()}
	return w
}

// written returns what the client wrote after the 16-byte RPC id.
func clientWritten(c *scriptConn) []byte {
	b := c.out.Bytes()
	if len(b) < 16 {
		return nil
	}
	return b[16:]
}

// otherHash is an arbitrary hash different from h.
func otherHash(name string, h types.Hash256) types.Hash256 {
	x := types.Hash256(vapi.Bytes32(name))
	vapi.Assume(x != h)
	return x
}

// hostSig is the host's signature over rev, or what the selector makes of it.
func (w *clientWorld) hostSig(rev types.V2FileContract, sel int) types.Signature {
	sh := w.cs.ContractSigHash(rev)
	switch sel {
	case 1:
		return types.Signature(vapi.ForgedSig("hostsig"))
	case 2: // a genuine host signature, but over a revision that charges more
		r2 := rev
		r2.RenterOutput.Value = r2.RenterOutput.Value.Sub(types.NewCurrency64(1))
		r2.HostOutput.Value = r2.HostOutput.Value.Add(types.NewCurrency64(1))
		return w.hostKey.SignHash(w.cs.ContractSigHash(r2))
	case 3: // signed by the peer at the other end, which is not the contract's host
		return w.impKey.SignHash(sh)
	}
	return w.hostKey.SignHash(sh)
}

// impersonate makes the transport's peer somebody other than the contract's
// host (another host, a stale address, an impostor): it has its own key,
// signs its own price table and signs revisions with that key.
func (w *clientWorld) impersonate() {
	w.impKey = keyFromByte(9)
	w.t.hostKey = w.impKey.PublicKey()
	hw := &hostWorld{hostKey: w.impKey}
	w.prices = hw.signedPrices(w.impKey, time.Now().Add(time.Hour))
}

// checkClientRevision: the revision returned by a client call is the locally
// recomputed one, carries a verifying host signature, and charges the price.
func (w *clientWorld) checkClientRevision(tag string, got, want types.V2FileContract, usage, wantUsage proto4.Usage) {
	sh := w.cs.ContractSigHash(want)
	g := got
	g.HostSignature, g.RenterSignature = types.Signature{}, types.Signature{}
	wn := want
	wn.HostSignature, wn.RenterSignature = types.Signature{}, types.Signature{}
	vapi.Assert(tag+".revision-is-local", g == wn)
	vapi.Assert(tag+".host-signature", w.contract.Revision.HostPublicKey.VerifyHash(sh, got.HostSignature))
	vapi.Assert(tag+".renter-signature", w.contract.Revision.RenterPublicKey.VerifyHash(sh, got.RenterSignature))
	vapi.Assert(tag+".usage", usage == wantUsage)
}

// ---- sector roots ------------------------------------------------------------

// VerifH_C10_roots: RPCSectorRoots against a host that corrupts one thing.
//
//verif:harness prop=C10 tier=quick replay=native go=skip require=ok,rejected bounds="contract of 0..4 sectors (capacity equal to or one sector above the data); any valid (offset,length), for the empty contract any request; corruption of one root / one proof node / root count (+1,-1) / host signature (forged, or genuine over a dearer revision)"
func VerifH_C10_roots() {
	n := vapi.Int("sectors", 0, 4)
	if n == 0 {
		verifRootsEmptyContract()
		return
	}
	w := newClientWorld(n)
	off := uint64(vapi.Int("offset", 0, n-1))
	length := uint64(vapi.Int("length", 1, n-int(off)))
	want := append([]types.Hash256(nil), w.roots[off:off+length]...)
	rev, wantUsage, err := proto4.ReviseForSectorRoots(w.contract.Revision, w.prices, length)
	if err != nil {
		panic(err)
	}
	corrupt := vapi.Int("corrupt", 0, 7)
	if corrupt == 7 {
		w.impersonate()
		rev, wantUsage, _ = proto4.ReviseForSectorRoots(w.contract.Revision, w.prices, length)
	}
	w.t.conn.respond = func(c *scriptConn) []byte {
		if c.round > 0 {
			return nil
		}
		resp := proto4.RPCSectorRootsResponse{
			Proof: proto4.BuildSectorRootsProof(w.roots, off, off+length),
			Roots: append([]types.Hash256(nil), want...),
		}
		sigSel := 0
		switch corrupt {
		case 1:
			k := vapi.Int("which", 0, len(resp.Roots)-1)
			resp.Roots[k] = otherHash("root", resp.Roots[k])
		case 2:
			if len(resp.Proof) == 0 {
				vapi.Assume(false)
			}
			k := vapi.Int("which", 0, len(resp.Proof)-1)
			resp.Proof[k] = otherHash("node", resp.Proof[k])
		case 3:
			resp.Roots = append(resp.Roots, types.Hash256(vapi.Bytes32("extra")))
		case 4:
			resp.Roots = resp.Roots[:len(resp.Roots)-1]
		case 5:
			sigSel = 1
		case 6:
			sigSel = 2
		case 7:
			sigSel = 3
		}
		resp.HostSignature = w.hostSig(rev, sigSel)
		return encResp(&resp)
	}
	res, err := rhp4.RPCSectorRoots(context.Background(), w.t, w.cs, w.prices, w.renterKey, w.contract, off, length)
	if err != nil {
		vapi.Reach("rejected")
		vapi.Assert("roots.honest-accepted", corrupt != 0)
		return
	}
	vapi.Reach("ok")
	vapi.Assert("roots.bound", corrupt == 0)
	vapi.Assert("roots.are-the-contract-roots", sameRoots(res.Roots, want))
	w.checkClientRevision("roots", res.Revision, rev, res.Usage, wantUsage)
}

// ---- append sectors ----------------------------------------------------------

// VerifH_C10_append: RPCAppendSectors against a corrupting host.
//
//verif:harness prop=C10,C09 tier=quick replay=native go=skip require=ok,rejected bounds="contract of 0..3 sectors (capacity equal to or one sector above the data); 1..2 appended roots each accepted or not; corruption of the new Merkle root / a subtree root / the accepted count / the host signature (forged, over a dearer revision, or made by a peer that is not the contract's host)"
func VerifH_C10_append() {
	n := vapi.Int("sectors", 0, 3)
	w := newClientWorld(n)
	k := vapi.Int("nAppend", 1, 2)
	var sectors, accepted []types.Hash256
	acc := make([]bool, k)
	for i := 0; i < k; i++ {
		sectors = append(sectors, rootN(10+i))
		acc[i] = vapi.Bool("accepted")
		if acc[i] {
			accepted = append(accepted, sectors[i])
		}
	}
	corrupt := vapi.Int("corrupt", 0, 6)
	if corrupt == 6 {
		w.impersonate()
	}
	var rev types.V2FileContract
	var wantUsage proto4.Usage
	w.t.conn.respond = func(c *scriptConn) []byte {
		switch c.round {
		case 0:
			sub, newRoot := proto4.BuildAppendProof(w.roots, accepted)
			resp := proto4.RPCAppendSectorsResponse{Accepted: append([]bool(nil), acc...), SubtreeRoots: sub, NewMerkleRoot: newRoot}
			switch corrupt {
			case 1:
				resp.NewMerkleRoot = otherHash("newroot", newRoot)
			case 2:
				if len(resp.SubtreeRoots) == 0 {
					vapi.Assume(false)
				}
				resp.SubtreeRoots[0] = otherHash("subtree", resp.SubtreeRoots[0])
			case 3:
				resp.Accepted = resp.Accepted[:len(resp.Accepted)-1]
			}
			var err error
			rev, wantUsage, err = proto4.ReviseForAppendSectors(w.contract.Revision, w.prices, newRoot, uint64(len(accepted)))
			if err != nil {
				panic(err)
			}
			return encResp(&resp)
		case 1:
			sel := 0
			if corrupt == 4 {
				sel = 1
			} else if corrupt == 5 {
				sel = 2
			} else if corrupt == 6 {
				sel = 3
			}
			return encResp(&proto4.RPCAppendSectorsThirdResponse{HostSignature: w.hostSig(rev, sel)})
		}
		return nil
	}
	res, err := rhp4.RPCAppendSectors(context.Background(), w.t, w.renterKey, w.cs, w.prices, w.contract, sectors)
	if err != nil {
		vapi.Reach("rejected")
		vapi.Assert("append.honest-accepted", corrupt != 0)
		return
	}
	vapi.Reach("ok")
	vapi.Assert("append.bound", corrupt == 0)
	vapi.Assert("append.new-root-is-the-list-model", res.Revision.FileMerkleRoot == proto4.MetaRoot(append(append([]types.Hash256(nil), w.roots...), accepted...)))
	vapi.Assert("append.accepted-list", sameRoots(res.Sectors, accepted))
	w.checkClientRevision("append", res.Revision, rev, res.Usage, wantUsage)
}

// ---- free sectors ------------------------------------------------------------

// VerifH_C10_free: RPCFreeSectors (client normalisation included) against an
// honest-then-corrupting host: on success the new Merkle root is the root of
// the list model applied to the caller's indices (any order, duplicates).
//
//verif:harness prop=C10,C09 tier=quick replay=native go=skip require=ok,rejected bounds="contract of 1..4 sectors; 1..3 caller indices in range, any order, duplicates allowed; corruption of the new Merkle root / a proof hash / the host signature (forged, over a dearer revision, or made by a peer that is not the contract's host)"
func VerifH_C10_free() {
	n := vapi.Int("sectors", 1, 4)
	w := newClientWorld(n)
	k := vapi.Int("nIndices", 1, 3)
	indices := make([]uint64, k)
	for i := range indices {
		indices[i] = uint64(vapi.Int("index", 0, n-1))
	}
	callerCopy := append([]uint64(nil), indices...)
	model := swapRemove(w.roots, indices)
	corrupt := vapi.Int("corrupt", 0, 5)
	if corrupt == 5 {
		w.impersonate()
	}
	var rev types.V2FileContract
	var wantUsage proto4.Usage
	w.t.conn.respond = func(c *scriptConn) []byte {
		switch c.round {
		case 0:
			var req proto4.RPCFreeSectorsRequest
			if err := proto4.ReadRequest(bytes.NewReader(clientWritten(c)), &req); err != nil {
				return nil
			}
			// an honest host as the real server behaves (after validating the request)
			seen := map[uint64]bool{}
			for _, i := range req.Indices {
				if i >= uint64(n) || seen[i] {
					return encResp(proto4.NewRPCError(proto4.ErrorCodeBadRequest, "bad index").(*proto4.RPCError))
				}
				seen[i] = true
			}
			tree, leaves := proto4.BuildFreeSectorsProof(w.roots, req.Indices)
			roots := append([]types.Hash256(nil), w.roots...)
			for i, x := range req.Indices {
				roots[x] = roots[len(roots)-i-1]
			}
			roots = roots[:len(roots)-len(req.Indices)]
			resp := proto4.RPCFreeSectorsResponse{OldSubtreeHashes: tree, OldLeafHashes: leaves, NewMerkleRoot: proto4.MetaRoot(roots)}
			switch corrupt {
			case 1:
				resp.NewMerkleRoot = otherHash("newroot", resp.NewMerkleRoot)
			case 2:
				if len(resp.OldLeafHashes) == 0 {
					vapi.Assume(false)
				}
				resp.OldLeafHashes[0] = otherHash("leaf", resp.OldLeafHashes[0])
			}
			var err error
			rev, wantUsage, err = proto4.ReviseForFreeSectors(w.contract.Revision, w.prices, proto4.MetaRoot(roots), len(req.Indices))
			if err != nil {
				panic(err)
			}
			return encResp(&resp)
		case 1:
			sel := 0
			if corrupt == 3 {
				sel = 1
			} else if corrupt == 4 {
				sel = 2
			} else if corrupt == 5 {
				sel = 3
			}
			return encResp(&proto4.RPCFreeSectorsThirdResponse{HostSignature: w.hostSig(rev, sel)})
		}
		return nil
	}
	res, err := rhp4.RPCFreeSectors(context.Background(), w.t, w.renterKey, w.cs, w.prices, w.contract, indices)
	for i := range indices {
		vapi.Assert("free.caller-slice-untouched", indices[i] == callerCopy[i])
	}
	if err != nil {
		vapi.Reach("rejected")
		vapi.Assert("free.honest-accepted", corrupt != 0)
		return
	}
	vapi.Reach("ok")
	vapi.Assert("free.bound", corrupt == 0)
	vapi.Assert("free.new-root-is-the-list-model", res.Revision.FileMerkleRoot == proto4.MetaRoot(model))
	vapi.Assert("free.new-size", res.Revision.Filesize == uint64(len(model))*proto4.SectorSize)
	w.checkClientRevision("free", res.Revision, rev, res.Usage, wantUsage)
}

// ---- fund / replenish accounts -------------------------------------------------

// VerifH_C10_fund: RPCFundAccounts: balances count and host signature.
//
//verif:harness prop=C10 tier=quick replay=native go=skip require=ok,rejected bounds="1..2 deposits with symbolic amounts < 2^40; corruption of the balance count / the host signature (forged, over a dearer revision, or made by a peer that is not the contract's host)"
func VerifH_C10_fund() {
	w := newClientWorld(1)
	k := vapi.Int("nDeposits", 1, 2)
	var deposits []proto4.AccountDeposit
	var total types.Currency
	for i := 0; i < k; i++ {
		a := vapi.UBits("amount", 40)
		vapi.Assume(a >= 1)
		amt := types.NewCurrency64(a)
		deposits = append(deposits, proto4.AccountDeposit{Account: acctN(i), Amount: amt})
		total = total.Add(amt)
	}
	rev, wantUsage, err := proto4.ReviseForFundAccounts(w.contract.Revision, total)
	if err != nil {
		panic(err)
	}
	corrupt := vapi.Int("corrupt", 0, 5)
	if corrupt == 5 {
		w.impersonate()
	}
	w.t.conn.respond = func(c *scriptConn) []byte {
		if c.round > 0 {
			return nil
		}
		resp := proto4.RPCFundAccountsResponse{}
		for i := 0; i < k; i++ {
			resp.Balances = append(resp.Balances, types.NewCurrency64(vapi.UBits("newbalance", 40)))
		}
		sel := 0
		switch corrupt {
		case 1:
			resp.Balances = resp.Balances[:k-1]
		case 2:
			resp.Balances = append(resp.Balances, types.ZeroCurrency)
		case 3:
			sel = 1
		case 4:
			sel = 2
		case 5:
			sel = 3
		}
		resp.HostSignature = w.hostSig(rev, sel)
		return encResp(&resp)
	}
	res, err := rhp4.RPCFundAccounts(context.Background(), w.t, w.cs, w.renterKey, w.contract, deposits)
	if err != nil && corrupt == 0 {
		vapi.Log(err)
	}
	if err != nil {
		vapi.Reach("rejected")
		vapi.Assert("fund.honest-accepted", corrupt != 0)
		return
	}
	vapi.Reach("ok")
	vapi.Assert("fund.bound", corrupt == 0)
	vapi.Assert("fund.balances", len(res.Balances) == k)
	w.checkClientRevision("fund", res.Revision, rev, res.Usage, wantUsage)
}

// VerifH_C10_replenish: RPCReplenishAccounts: whatever deposits the host
// announces, a successful call charges no more than target x accounts, every
// deposit is at most the target, and the revision is the local one.
//
//verif:harness prop=C10 tier=quick replay=native go=skip require=ok,rejected,free bounds="1..2 accounts; the host announces 0..3 deposits with arbitrary amounts < 2^41; symbolic target < 2^40; host signature selector"
func VerifH_C10_replenish() {
	w := newClientWorld(1)
	k := vapi.Int("nAccounts", 1, 2)
	var accounts []proto4.Account
	for i := 0; i < k; i++ {
		accounts = append(accounts, acctN(i))
	}
	target := types.NewCurrency64(vapi.UBits("target", 40))
	nDep := vapi.Int("nDeposits", 0, 3)
	var deposits []proto4.AccountDeposit
	var sum types.Currency
	for i := 0; i < nDep; i++ {
		amt := types.NewCurrency64(vapi.UBits("deposit", 41))
		deposits = append(deposits, proto4.AccountDeposit{Account: acctN(i), Amount: amt})
		sum = sum.Add(amt)
	}
	sigSel := vapi.Int("sig", 0, 3)
	if sigSel == 3 {
		w.impersonate()
	}
	w.t.conn.respond = func(c *scriptConn) []byte {
		switch c.round {
		case 0:
			return encResp(&proto4.RPCReplenishAccountsResponse{Deposits: deposits})
		case 1:
			rev, _, err := proto4.ReviseForReplenish(w.contract.Revision, sum)
			if err != nil {
				return nil
			}
			return encResp(&proto4.RPCReplenishAccountsThirdResponse{HostSignature: w.hostSig(rev, sigSel)})
		}
		return nil
	}
	res, err := rhp4.RPCReplenishAccounts(context.Background(), w.t, rhp4.RPCReplenishAccountsParams{Accounts: accounts, Target: target, Contract: w.contract}, w.cs, w.renterKey)
	if err != nil {
		vapi.Reach("rejected")
		return
	}
	// cost bounds promised by the property
	maxCost := target.Mul64(uint64(k))
	charged := w.contract.Revision.RenterOutput.Value.Sub(res.Revision.RenterOutput.Value)
	vapi.Assert("replenish.total-at-most-target-times-accounts", charged.Cmp(maxCost) <= 0)
	for _, d := range res.Deposits {
		vapi.Assert("replenish.each-at-most-target", d.Amount.Cmp(target) <= 0)
	}
	if sum.IsZero() {
		vapi.Reach("free")
		vapi.Assert("replenish.nothing-charged", res.Revision == w.contract.Revision)
		return
	}
	vapi.Reach("ok")
	vapi.Assert("replenish.signature-bound", sigSel == 0)
	rev, wantUsage, _ := proto4.ReviseForReplenish(w.contract.Revision, sum)
	w.checkClientRevision("replenish", res.Revision, rev, res.Usage, wantUsage)
}

// verifRootsEmptyContract: a contract without sectors has no roots to serve:
// whatever the host answers (core's proof verifier accepts an empty proof for
// an empty tree without looking at the roots), the call must not succeed.
func verifRootsEmptyContract() {
	w := newClientWorld(0)
	length := uint64(vapi.Int("length", 1, 2))
	w.t.conn.respond = func(c *scriptConn) []byte {
		if c.round > 0 {
			return nil
		}
		resp := proto4.RPCSectorRootsResponse{}
		for k := uint64(0); k < length; k++ {
			resp.Roots = append(resp.Roots, types.Hash256(vapi.Bytes32("made-up-root")))
		}
		rev, _, err := proto4.ReviseForSectorRoots(w.contract.Revision, w.prices, length)
		if err != nil {
			return nil
		}
		resp.HostSignature = w.hostSig(rev, 0)
		return encResp(&resp)
	}
	_, err := rhp4.RPCSectorRoots(context.Background(), w.t, w.cs, w.prices, w.renterKey, w.contract, 0, length)
	vapi.Assert("roots.empty-contract-serves-nothing", err != nil)
	vapi.Reach("rejected")
}
