package rhp_test

import (
	"time"

	"go.sia.tech/core/consensus"
	proto4 "go.sia.tech/core/rhp/v4"
	"go.sia.tech/core/types"
	"go.sia.tech/coreutils/internal/vapi"
	"go.sia.tech/coreutils/testutil"
)

// ---- fund accounts with full-range 128-bit amounts ----------------------------

// VerifH_C08_fund_overflow: three deposits with arbitrary 128-bit amounts: the
// host never persists a revision whose transfer differs from the credited
// total (a wrapped sum must be rejected, not signed).
//
//verif:harness prop=C08,C15 tier=quick replay=native require=failed bounds="3 deposits to distinct accounts with arbitrary 128-bit amounts (sums may exceed 2^128); contract payouts < 2^40"
func VerifH_C08_fund_overflow() {
	w := newHostWorld(1)
	hostFaultsOff = true
	var deposits []proto4.AccountDeposit
	for i := 0; i < 3; i++ {
		amt := types.NewCurrency(vapi.U64("lo"), vapi.U64("hi"))
		deposits = append(deposits, proto4.AccountDeposit{Account: acctN(i), Amount: amt})
	}
	req := proto4.RPCFundAccountsRequest{ContractID: w.id, Deposits: deposits}
	// the adversary signs whatever revision the host will compute: model it by
	// letting the signature be valid for the revision transferring an arbitrary total
	total := types.NewCurrency(vapi.U64("total.lo"), vapi.U64("total.hi"))
	rev, _, rerr := proto4.ReviseForFundAccounts(w.fc, total)
	if rerr != nil {
		vapi.Assume(false)
	}
	req.RenterSignature = w.renterKey.SignHash(consensus.State{}.ContractSigHash(rev))
	conn := &scriptConn{}
	conn.in.Write(encReq(proto4.RPCFundAccountsID, &req))
	before := w.snap()
	err := w.server.VerifHandle("fund", conn)
	after := w.snap()
	if err != nil || sameContract(before.fc, after.fc) {
		vapi.Reach("failed")
		return
	}
	vapi.Reach("funded")
	// what was credited equals what the contract transferred
	transferred := before.fc.RenterOutput.Value.Sub(after.fc.RenterOutput.Value)
	var credited types.Currency
	for i := range deposits {
		credited = credited.Add(w.contractor.VerifAccount(deposits[i].Account))
	}
	vapi.Assert("fund.credit-equals-transfer", credited == transferred)
}

// ---- paid sector RPCs (C15: debit before service) ------------------------------

type payWorld struct {
	*hostWorld
	acctKey types.PrivateKey
	acct    proto4.Account
	token   proto4.AccountToken
}

func newPayWorld() *payWorld {
	w := &payWorld{hostWorld: newHostWorldPlain()}
	w.acctKey = keyFromByte(3)
	w.acct = proto4.Account(w.acctKey.PublicKey())
	w.token = proto4.AccountToken{HostKey: w.hostKey.PublicKey(), Account: w.acct, ValidUntil: time.Now().Add(5 * time.Minute)}
	w.token.Signature = w.acctKey.SignHash(w.token.SigHash())
	return w
}

// newHostWorldPlain: a host without contract-specific symbolic state.
func newHostWorldPlain() *hostWorld {
	w := &hostWorld{hostKey: keyFromByte(1), renterKey: keyFromByte(2)}
	w.chain = &vChain{tip: types.ChainIndex{Height: 50, ID: types.BlockID{7}}}
	w.contractor = testutil.VerifNewContractor(w.chain.tip)
	w.sectors = &vSectors{has: map[types.Hash256]bool{}}
	w.server = rhp4NewServer(w)
	w.prices = w.signedPrices(w.hostKey, time.Now().Add(time.Hour))
	return w
}

// corruptToken applies the token corruption selector.
func (w *payWorld) corruptToken(t *proto4.AccountToken) bool {
	switch vapi.Int("token", 0, 3) {
	case 1: // expired
		t.ValidUntil = time.Now().Add(-time.Minute)
		t.Signature = w.acctKey.SignHash(t.SigHash())
		return true
	case 2: // for another host
		t.HostKey = keyFromByte(8).PublicKey()
		t.Signature = w.acctKey.SignHash(t.SigHash())
		return true
	case 3: // not signed by the account
		t.Signature = types.Signature(vapi.ForgedSig("token"))
		return true
	}
	return false
}

// VerifH_C15_write: write-sector debits the priced cost before storing and
// stores nothing (and debits nothing) unless the whole payload arrived and the
// drawable funds cover the cost.
//
//verif:harness prop=C15 tier=quick replay=native require=stored,underfunded,aborted,rejected bounds="payload 64 or 128 bytes, optionally cut short; account balance symbolic < 2^40 around the cost; one attached pool with symbolic balance; token and price selectors"
func VerifH_C15_write() {
	w := newPayWorld()
	dataLen := uint64(64 * vapi.Int("leaves", 1, 2))
	bal := types.NewCurrency64(vapi.UBits("balance", 40))
	w.contractor.VerifSetAccount(w.acct, bal)
	pool := acctN(7)
	poolBal := types.NewCurrency64(vapi.UBits("pool", 40))
	hasPool := vapi.Bool("pool-attached")
	if hasPool {
		w.contractor.VerifSetPool(pool, poolBal)
		if err := w.contractor.AttachPools([]proto4.PoolAttachment{{Account: w.acct, Pool: pool}}); err != nil {
			panic(err)
		}
	}
	req := proto4.RPCWriteSectorRequest{Prices: w.prices, Token: w.token, DataLength: dataLen}
	badPrices := w.corruptPrices(&req.Prices)
	badToken := w.corruptToken(&req.Token)
	short := vapi.Bool("payload-cut-short")
	conn := &scriptConn{}
	conn.in.Write(encReq(proto4.RPCWriteSectorID, &req))
	n := int(dataLen)
	if short {
		n -= 16
	}
	conn.in.Write(make([]byte, n))
	cost := req.Prices.RPCWriteSectorCost(dataLen).RenterCost()
	err := w.server.VerifHandle("write", conn)
	newBal := w.contractor.VerifAccount(w.acct)
	newPool, _ := w.contractor.VerifPool(pool)
	drawable := bal
	if hasPool {
		drawable = drawable.Add(poolBal)
	}
	spent := bal.Sub(newBal)
	if hasPool {
		spent = spent.Add(poolBal.Sub(newPool))
	}
	if err != nil {
		vapi.Assert("write.fail-stores-nothing", w.sectors.stores == 0)
		vapi.Assert("write.fail-debits-nothing", newBal == bal && (!hasPool || newPool == poolBal))
		switch {
		case badPrices || badToken:
			vapi.Reach("rejected")
		case short:
			vapi.Reach("aborted")
		default:
			vapi.Assert("write.only-underfunded-fails", drawable.Cmp(cost) < 0)
			vapi.Reach("underfunded")
		}
		return
	}
	vapi.Reach("stored")
	vapi.Assert("write.gate", !badPrices && !badToken && !short)
	vapi.Assert("write.stored-once", w.sectors.stores == 1)
	vapi.Assert("write.paid-exactly", spent == cost)
	vapi.Assert("write.funded", drawable.Cmp(cost) >= 0)
	// own balance first, then the pool
	if bal.Cmp(cost) >= 0 {
		vapi.Assert("write.own-balance-first", newBal == bal.Sub(cost) && (!hasPool || newPool == poolBal))
	} else {
		vapi.Assert("write.own-balance-drained", newBal.IsZero())
	}
}

// VerifH_C15_verify: verify-sector (and, identically structured, read-sector)
// serves data only after a successful debit of the priced cost.
//
//verif:harness prop=C15 tier=quick replay=native require=served,underfunded,rejected,missing bounds="sector present or not; balance symbolic; token and price selectors; read: offset/length of 1 leaf"
func VerifH_C15_verify() {
	w := newPayWorld()
	root := rootN(1)
	w.sectors.has[root] = vapi.Bool("sector-present")
	bal := types.NewCurrency64(vapi.UBits("balance", 40))
	w.contractor.VerifSetAccount(w.acct, bal)
	read := vapi.Bool("read-rpc")
	var reqBytes []byte
	var cost types.Currency
	var badPrices, badToken bool
	rpc := "verify"
	if read {
		req := proto4.RPCReadSectorRequest{Prices: w.prices, Token: w.token, Root: root, Offset: 0, Length: 64}
		badPrices = w.corruptPrices(&req.Prices)
		badToken = w.corruptToken(&req.Token)
		reqBytes = encReq(proto4.RPCReadSectorID, &req)
		cost = req.Prices.RPCReadSectorCost(64).RenterCost()
		rpc = "read"
	} else {
		req := proto4.RPCVerifySectorRequest{Prices: w.prices, Token: w.token, Root: root, LeafIndex: 3}
		badPrices = w.corruptPrices(&req.Prices)
		badToken = w.corruptToken(&req.Token)
		reqBytes = encReq(proto4.RPCVerifySectorID, &req)
		cost = req.Prices.RPCVerifySectorCost().RenterCost()
	}
	conn := &scriptConn{}
	conn.in.Write(reqBytes)
	err := w.server.VerifHandle(rpc, conn)
	newBal := w.contractor.VerifAccount(w.acct)
	if err != nil {
		vapi.Assert("service.fail-reads-nothing", w.sectors.reads == 0)
		vapi.Assert("service.fail-debits-nothing", newBal == bal)
		switch {
		case badPrices || badToken:
			vapi.Reach("rejected")
		case !w.sectors.has[root]:
			vapi.Reach("missing")
		default:
			vapi.Assert("service.only-underfunded-fails", bal.Cmp(cost) < 0)
			vapi.Reach("underfunded")
		}
		return
	}
	vapi.Reach("served")
	vapi.Assert("service.gate", !badPrices && !badToken && w.sectors.has[root])
	vapi.Assert("service.paid-exactly", bal.Sub(newBal) == cost)
	vapi.Assert("service.read-once", w.sectors.reads == 1)
}

// VerifH_C15_debit: the reference contractor's DebitAccount on an account with
// up to two pools attached (attachments possibly repeated, possibly detached
// again): debits exactly the cost or nothing, own balance first then pools in
// attachment order, never more than is drawable.
//
//verif:harness prop=C15 tier=quick replay=native require=debited,insufficient bounds="account + 2 pools with symbolic balances < 2^40; attach sequence of 0..3 operations over {attach p0, attach p1, attach [p1,p1] in one batch, detach p0}; cost symbolic"
func VerifH_C15_debit() {
	c := testutil.VerifNewContractor(types.ChainIndex{})
	acct := acctN(0)
	pools := []proto4.Account{acctN(5), acctN(6)}
	bal := types.NewCurrency64(vapi.UBits("balance", 40))
	pb := []types.Currency{types.NewCurrency64(vapi.UBits("pool0", 40)), types.NewCurrency64(vapi.UBits("pool1", 40))}
	c.VerifSetAccount(acct, bal)
	c.VerifSetPool(pools[0], pb[0])
	c.VerifSetPool(pools[1], pb[1])
	// reference attachment list
	var attached []int
	nOps := vapi.Int("ops", 0, 3)
	for i := 0; i < nOps; i++ {
		switch op := vapi.Int("op", 0, 3); op {
		case 0, 1, 3:
			batch := []proto4.PoolAttachment{{Account: acct, Pool: pools[op&1]}}
			if op == 3 {
				// one batch naming the same link twice
				batch = append(batch, batch[0])
				op = 1
			}
			if err := c.AttachPools(batch); err != nil {
				panic(err)
			}
			dup := false
			for _, a := range attached {
				dup = dup || a == op
			}
			if !dup {
				attached = append(attached, op)
			}
		case 2:
			if err := c.DetachPools([]proto4.PoolDetachment{{Account: acct, Pool: pools[0]}}); err != nil {
				panic(err)
			}
			for k, a := range attached {
				if a == 0 {
					attached = append(attached[:k:k], attached[k+1:]...)
					break
				}
			}
		}
	}
	cost := types.NewCurrency64(vapi.UBits("cost", 41))
	err := c.DebitAccount(acct, proto4.Usage{RPC: cost})
	drawable := bal
	for _, a := range attached {
		drawable = drawable.Add(pb[a])
	}
	nb := c.VerifAccount(acct)
	np0, _ := c.VerifPool(pools[0])
	np1, _ := c.VerifPool(pools[1])
	np := []types.Currency{np0, np1}
	if err != nil {
		vapi.Reach("insufficient")
		vapi.Assert("debit.fails-iff-insufficient", drawable.Cmp(cost) < 0)
		vapi.Assert("debit.fail-changes-nothing", nb == bal && np0 == pb[0] && np1 == pb[1])
		return
	}
	vapi.Reach("debited")
	vapi.Assert("debit.succeeds-iff-sufficient", drawable.Cmp(cost) >= 0)
	// reference drain: own balance, then pools in attachment order
	rem := cost
	take := func(b types.Currency) types.Currency {
		t := b
		if b.Cmp(rem) > 0 {
			t = rem
		}
		rem = rem.Sub(t)
		return b.Sub(t)
	}
	wantBal := take(bal)
	want := []types.Currency{pb[0], pb[1]}
	for _, a := range attached {
		want[a] = take(want[a])
	}
	vapi.Assert("debit.own-balance-first", nb == wantBal)
	vapi.Assert("debit.pools-in-order", np[0] == want[0] && np[1] == want[1])
	vapi.Assert("debit.exact", rem.IsZero())
}

// VerifH_C15_attach: attachments take effect only when every entry of the
// batch is signed by its pool's key for this host (all or nothing).
//
//verif:harness prop=C15 tier=quick replay=native require=attached,rejected bounds="1..2 attachments, to the same pool or to two pools, for the same or different accounts; each signature by the pool key (valid) / the account key / forged / for another host / the other entry's signature replayed"
func VerifH_C15_attach() {
	w := newHostWorldPlain()
	host := w.hostKey.PublicKey()
	n := vapi.Int("entries", 1, 2)
	samePool := n == 2 && vapi.Bool("same-pool")
	sameAcct := n == 2 && vapi.Bool("same-account")
	var atts []proto4.PoolAttachment
	allValid := true
	for i := 0; i < n; i++ {
		ai, pi := i, i
		if samePool {
			pi = 0
		}
		if sameAcct {
			ai = 0
		}
		acctKey, poolKey := keyFromByte(byte(30+ai)), keyFromByte(byte(40+pi))
		acct, pool := proto4.Account(acctKey.PublicKey()), proto4.Account(poolKey.PublicKey())
		w.contractor.VerifSetPool(pool, types.NewCurrency64(5))
		att := proto4.PoolAttachment{Account: acct, Pool: pool, ValidUntil: time.Now().Add(time.Minute)}
		switch vapi.Int("sig", 0, 4) {
		case 0:
			att.Signature = poolKey.SignHash(att.SigHash(host))
		case 1: // the account holder signs for a pool it does not own
			att.Signature = acctKey.SignHash(att.SigHash(host))
			allValid = false
		case 2:
			att.Signature = types.Signature(vapi.ForgedSig("attach"))
			allValid = false
		case 3: // valid signature, but bound to another host
			att.Signature = poolKey.SignHash(att.SigHash(keyFromByte(8).PublicKey()))
			allValid = false
		case 4: // the first entry's signature reused for this one
			if i == 0 {
				vapi.Assume(false)
			}
			att.Signature = atts[0].Signature
			if att.SigHash(host) != atts[0].SigHash(host) {
				allValid = false
			}
		}
		atts = append(atts, att)
	}
	req := proto4.RPCAttachPoolsRequest{Attachments: atts}
	conn := &scriptConn{}
	conn.in.Write(encReq(proto4.RPCAttachPoolsID, &req))
	err := w.server.VerifHandle("attach", conn)
	if err != nil {
		vapi.Reach("rejected")
		for _, a := range atts {
			vapi.Assert("attach.fail-changes-nothing", len(w.contractor.VerifAttached(a.Account)) == 0)
		}
		return
	}
	vapi.Reach("attached")
	vapi.Assert("attach.gate", allValid)
	for _, a := range atts {
		found := false
		for _, p := range w.contractor.VerifAttached(a.Account) {
			if p == a.Pool {
				found = true
			}
		}
		vapi.Assert("attach.effect", found)
	}
}
