package rhp_test

import (
	"bytes"
	"errors"
	"time"

	"go.sia.tech/core/consensus"
	proto4 "go.sia.tech/core/rhp/v4"
	"go.sia.tech/core/types"
	"go.sia.tech/coreutils/internal/vapi"
	rhp4 "go.sia.tech/coreutils/rhp/v4"
	"go.sia.tech/coreutils/testutil"
)

// vWallet records reservations made by the host while funding.
type vWallet struct {
	basis     types.ChainIndex
	nInputs   int
	reserved  map[types.SiacoinOutputID]bool
	released  map[types.SiacoinOutputID]bool
	broadcast int
	broadcastBasis types.ChainIndex
	failFund  bool
	log       []string
}

func (w *vWallet) Address() types.Address { return types.Address{0xaa} }
func (w *vWallet) FundV2Transaction(txn *types.V2Transaction, amount types.Currency, useUnconfirmed bool) (types.ChainIndex, []int, error) {
	if w.failFund {
		return types.ChainIndex{}, nil, errors.New("wallet: cannot fund")
	}
	var toSign []int
	for i := 0; i < w.nInputs; i++ {
		id := types.SiacoinOutputID{0xb0, byte(i)}
		toSign = append(toSign, len(txn.SiacoinInputs))
		txn.SiacoinInputs = append(txn.SiacoinInputs, types.V2SiacoinInput{Parent: types.SiacoinElement{ID: id, StateElement: types.StateElement{LeafIndex: uint64(70 + i)}, SiacoinOutput: types.SiacoinOutput{Value: amount, Address: w.Address()}},
			SatisfiedPolicy: types.SatisfiedPolicy{Policy: types.AnyoneCanSpend()}})
		w.reserved[id] = true
	}
	w.log = append(w.log, "fund")
	return w.basis, toSign, nil
}
func (w *vWallet) SignV2Inputs(txn *types.V2Transaction, toSign []int) {}
func (w *vWallet) ReleaseInputs(txns []types.Transaction, v2txns []types.V2Transaction) {
	w.log = append(w.log, "release")
	for i := range v2txns {
		for _, in := range v2txns[i].SiacoinInputs {
			w.released[in.Parent.ID] = true
		}
	}
}
func (w *vWallet) BroadcastV2TransactionSet(basis types.ChainIndex, _ []types.V2Transaction) error {
	w.broadcastBasis = basis
	w.broadcast++
	w.log = append(w.log, "broadcast")
	return nil
}

// vFormChain fails where the selector says so and logs pool submissions.
type vFormChain struct {
	vChain
	failUpdate, failPool bool
	poolAccepted         int
	log                  *[]string
	// a block may arrive while the RPC is in progress: the final set is then
	// valid for (and labelled with) the new tip
	tipMoved            bool
	setBasis, poolBasis types.ChainIndex
}

func (c *vFormChain) V2TransactionSet(basis types.ChainIndex, txn types.V2Transaction) (types.ChainIndex, []types.V2Transaction, error) {
	c.setBasis = c.tip
	if c.tipMoved {
		c.setBasis = types.ChainIndex{Height: c.tip.Height + 1, ID: types.BlockID{0x5e}}
	}
	return c.setBasis, []types.V2Transaction{txn}, nil
}

func (c *vFormChain) AddV2PoolTransactions(basis types.ChainIndex, _ []types.V2Transaction) (bool, error) {
	c.poolBasis = basis
	if c.failPool {
		return false, errors.New("chain: set rejected by the pool")
	}
	c.poolAccepted++
	*c.log = append(*c.log, "pool")
	return false, nil
}
func (c *vFormChain) UpdateV2TransactionSet(txns []types.V2Transaction, from, to types.ChainIndex) ([]types.V2Transaction, error) {
	if c.failUpdate {
		return nil, errors.New("chain: unknown basis")
	}
	return txns, nil
}

type vFormSettings struct{ s proto4.HostSettings }

func (s vFormSettings) RHP4Settings() proto4.HostSettings { return s.s }

// contractorLog wraps the reference contractor to record the order of calls.
type contractorLog struct {
	*testutil.EphemeralContractor
	log   *[]string
	basis *types.ChainIndex // the basis of the set handed to AddV2Contract / RenewV2Contract
}

func (c contractorLog) AddV2Contract(ts rhp4.TransactionSet, u proto4.Usage) error {
	*c.basis = ts.Basis
	*c.log = append(*c.log, "add-contract")
	return c.EphemeralContractor.AddV2Contract(ts, u)
}

// VerifH_C16_form: contract formation on the host against an adversarial
// renter and a failing chain: every failure after the host funded releases
// every reserved input and records no contract; the contract is recorded only
// after the pool accepted the full set, is doubly signed, and is broadcast
// only after being recorded.
//
//verif:harness prop=C16 tier=quick replay=native require=formed,failed-after-funding bounds="1..2 renter inputs, 1..2 host inputs; host funding basis equal to or different from the renter's; UpdateV2TransactionSet / pool acceptance fail by selector; second round honest / forged contract signature / wrong policy count / absent; price table selector"
func VerifH_C16_form() {
	hostKey, renterKey := keyFromByte(1), keyFromByte(2)
	tip := types.ChainIndex{Height: 50, ID: types.BlockID{7}}
	var log []string
	wal := &vWallet{reserved: map[types.SiacoinOutputID]bool{}, released: map[types.SiacoinOutputID]bool{}, nInputs: vapi.Int("host-inputs", 1, 2)}
	wal.basis = tip
	sameBasis := vapi.Bool("same-basis")
	reqBasis := tip
	if !sameBasis {
		reqBasis = types.ChainIndex{Height: 49, ID: types.BlockID{6}}
	}
	ch := &vFormChain{vChain: vChain{tip: tip}, log: &log}
	ch.failUpdate = vapi.Bool("update-fails")
	ch.failPool = vapi.Bool("pool-rejects")
	ch.tipMoved = vapi.Bool("block-arrives-during-the-rpc")
	var recBasis types.ChainIndex
	ec := testutil.VerifNewContractor(tip)
	settings := vFormSettings{proto4.HostSettings{AcceptingContracts: true, MaxCollateral: types.NewCurrency64(1 << 50), MaxContractDuration: 10000, WalletAddress: wal.Address()}}
	srv := rhp4.NewServer(hostKey, ch, contractorLog{ec, &log, &recBasis}, wal, settings, &vSectors{has: map[types.Hash256]bool{}})
	hw := &hostWorld{hostKey: hostKey}
	prices := hw.signedPrices(hostKey, time.Now().Add(time.Hour))
	badPrices := hw.corruptPrices(&prices)
	params := proto4.RPCFormContractParams{RenterPublicKey: renterKey.PublicKey(), RenterAddress: types.Address{0xbb}, Allowance: types.NewCurrency64(1000), Collateral: types.NewCurrency64(500), ProofHeight: 400}
	nRenter := vapi.Int("renter-inputs", 1, 2)
	req := proto4.RPCFormContractRequest{Prices: prices, Contract: params, MinerFee: types.NewCurrency64(10), Basis: reqBasis}
	fc, _ := proto4.NewContract(prices, params, hostKey.PublicKey(), wal.Address())
	renterCost, _ := proto4.ContractCost(consensus.State{}, fc, req.MinerFee)
	for i := 0; i < nRenter; i++ {
		req.RenterInputs = append(req.RenterInputs, types.SiacoinElement{ID: types.SiacoinOutputID{0xa0, byte(i)}, StateElement: types.StateElement{LeafIndex: uint64(30 + i)},
			SiacoinOutput: types.SiacoinOutput{Value: renterCost, Address: params.RenterAddress}})
	}
	second := vapi.Int("second-round", 0, 3) // honest, forged contract signature, wrong policy count, absent
	conn := &scriptConn{}
	conn.in.Write(encReq(proto4.RPCFormContractID, &req))
	conn.respond = func(c *scriptConn) []byte {
		if c.round > 0 || second == 3 {
			return nil
		}
		var resp proto4.RPCFormContractResponse
		if err := proto4.ReadResponse(bytes.NewReader(c.out.Bytes()), &resp); err != nil {
			return nil
		}
		sig := renterKey.SignHash(consensus.State{}.ContractSigHash(fc))
		if second == 1 {
			sig = types.Signature(vapi.ForgedSig("contract"))
		}
		pol := make([]types.SatisfiedPolicy, nRenter)
		if second == 2 {
			pol = pol[:nRenter-1]
		}
		for i := range pol {
			pol[i] = types.SatisfiedPolicy{Policy: types.AnyoneCanSpend()}
		}
		return encResp(&proto4.RPCFormContractSecondResponse{RenterContractSignature: sig, RenterSatisfiedPolicies: pol})
	}
	err := srv.VerifHandle("form", conn)
	funded := len(wal.reserved) > 0
	if err != nil {
		vapi.Assert("form.fail-records-nothing", ec.VerifContracts() == 0)
		vapi.Assert("form.fail-broadcasts-nothing", wal.broadcast == 0)
		if funded {
			vapi.Reach("failed-after-funding")
			for id := range wal.reserved {
				vapi.Assert("form.host-release", wal.released[id])
			}
		}
		return
	}
	vapi.Reach("formed")
	vapi.Assert("form.gate", !badPrices && second == 0 && !ch.failPool && (sameBasis || !ch.failUpdate))
	vapi.Assert("form.recorded", ec.VerifContracts() == 1)
	vapi.Assert("form.broadcast-once", wal.broadcast == 1)
	// one basis throughout: the index the final set's proofs are valid for
	vapi.Assert("form.set-basis-consistent", ch.poolBasis == ch.setBasis && recBasis == ch.setBasis && wal.broadcastBasis == ch.setBasis)
	for id := range wal.reserved {
		vapi.Assert("form.kept-reserved", !wal.released[id])
	}
	// order: pool acceptance, then the contractor, then the broadcast
	pi, ai, bi := -1, -1, -1
	for i, e := range log {
		switch e {
		case "pool":
			pi = i
		case "add-contract":
			ai = i
		}
	}
	for i, e := range wal.log {
		if e == "broadcast" {
			bi = i
		}
	}
	vapi.Assert("form.record-after-pool", pi >= 0 && ai > pi && bi >= 0)
	// the recorded contract is the locally derivable one, doubly signed
	var resp3 proto4.RPCFormContractThirdResponse
	out := conn.out.Bytes()
	var first proto4.RPCFormContractResponse
	rd := bytes.NewReader(out)
	vapi.Assert("form.responses", proto4.ReadResponse(rd, &first) == nil && proto4.ReadResponse(rd, &resp3) == nil)
	if len(resp3.TransactionSet) > 0 {
		t := resp3.TransactionSet[len(resp3.TransactionSet)-1]
		vapi.Assert("form.one-contract", len(t.FileContracts) == 1)
		got := t.FileContracts[0]
		sh := consensus.State{}.ContractSigHash(got)
		vapi.Assert("form.contract-signed", renterKey.PublicKey().VerifyHash(sh, got.RenterSignature) && hostKey.PublicKey().VerifyHash(sh, got.HostSignature))
		got.RenterSignature, got.HostSignature = types.Signature{}, types.Signature{}
		vapi.Assert("form.contract-is-the-agreed-one", got == fc)
		vapi.Assert("form.inputs", len(t.SiacoinInputs) == nRenter+wal.nInputs)
		vapi.Assert("form.response-carries-the-sets-basis", resp3.Basis == ch.setBasis)
	}
}

func (c contractorLog) RenewV2Contract(ts rhp4.TransactionSet, u proto4.Usage) error {
	if n := len(ts.Transactions); n > 0 && len(ts.Transactions[n-1].FileContractResolutions) == 1 {
		vapi.Assert("persist.contract-locked", c.VerifLocked(ts.Transactions[n-1].FileContractResolutions[0].Parent.ID))
	}
	*c.basis = ts.Basis
	*c.log = append(*c.log, "renew-contract")
	return c.EphemeralContractor.RenewV2Contract(ts, u)
}

// VerifH_C16_renew: contract renewal on the host: same obligations as
// formation, plus: the existing contract is marked renewed only on success.
//
//verif:harness prop=C16,C09,C08 tier=quick replay=native require=renewed,failed-after-funding bounds="existing contract with 0..2 sectors; 1 renter input, 1..2 host inputs; basis relation, UpdateV2TransactionSet/pool failures and second-round selectors as in VerifH_C16_form (second round: honest / forged renewal signature / forged contract signature / absent); challenge selector"
func VerifH_C16_renew() {
	hostKey, renterKey := keyFromByte(1), keyFromByte(2)
	tip := types.ChainIndex{Height: 50, ID: types.BlockID{7}}
	var log []string
	wal := &vWallet{reserved: map[types.SiacoinOutputID]bool{}, released: map[types.SiacoinOutputID]bool{}, nInputs: vapi.Int("host-inputs", 1, 2)}
	wal.basis = tip
	sameBasis := vapi.Bool("same-basis")
	reqBasis := tip
	if !sameBasis {
		reqBasis = types.ChainIndex{Height: 49, ID: types.BlockID{6}}
	}
	ch := &vFormChain{vChain: vChain{tip: tip}, log: &log}
	ch.failUpdate = vapi.Bool("update-fails")
	ch.failPool = vapi.Bool("pool-rejects")
	ch.tipMoved = vapi.Bool("block-arrives-during-the-rpc")
	var recBasis types.ChainIndex
	ec := testutil.VerifNewContractor(tip)
	settings := vFormSettings{proto4.HostSettings{AcceptingContracts: true, MaxCollateral: types.NewCurrency64(1 << 50), MaxContractDuration: 10000, WalletAddress: wal.Address()}}
	srv := rhp4.NewServer(hostKey, ch, contractorLog{ec, &log, &recBasis}, wal, settings, &vSectors{has: map[types.Hash256]bool{}})
	hw := &hostWorld{hostKey: hostKey}
	prices := hw.signedPrices(hostKey, time.Now().Add(time.Hour))
	// the existing contract
	id := types.FileContractID{0xc0}
	existing := types.V2FileContract{
		ProofHeight: 100, ExpirationHeight: 244,
		RenterOutput:    types.SiacoinOutput{Value: types.NewCurrency64(300), Address: types.Address{0xbb}},
		HostOutput:      types.SiacoinOutput{Value: types.NewCurrency64(700), Address: wal.Address()},
		MissedHostValue: types.NewCurrency64(600), TotalCollateral: types.NewCurrency64(600),
		RenterPublicKey: renterKey.PublicKey(), HostPublicKey: hostKey.PublicKey(), RevisionNumber: 5,
	}
	// the contract holds 0..2 sectors: its roots go with it into the new contract
	var oldRoots []types.Hash256
	nStored := vapi.Int("stored-sectors", 0, 2)
	for k := 0; k < nStored; k++ {
		oldRoots = append(oldRoots, rootN(k))
	}
	existing.Filesize = uint64(len(oldRoots)) * proto4.SectorSize
	existing.Capacity = existing.Filesize
	existing.FileMerkleRoot = proto4.MetaRoot(oldRoots)
	ec.VerifSetContract(id, existing, oldRoots)
	ec.VerifSetElement(id, types.V2FileContractElement{ID: id, StateElement: types.StateElement{LeafIndex: 9}, V2FileContract: existing})
	params := proto4.RPCRenewContractParams{ContractID: id, Allowance: types.NewCurrency64(1000), Collateral: types.NewCurrency64(500), ProofHeight: 400}
	req := proto4.RPCRenewContractRequest{Prices: prices, Renewal: params, MinerFee: types.NewCurrency64(10), Basis: reqBasis}
	badChallenge := vapi.Bool("forge-challenge")
	if badChallenge {
		req.ChallengeSignature = types.Signature(vapi.ForgedSig("challenge"))
	} else {
		req.ChallengeSignature = renterKey.SignHash(req.ChallengeSigHash(existing.RevisionNumber))
	}
	renewal, _ := proto4.RenewContract(existing, prices, wal.Address(), params)
	renterCost, _ := proto4.RenewalCost(consensus.State{}, renewal, req.MinerFee)
	req.RenterInputs = []types.SiacoinElement{{ID: types.SiacoinOutputID{0xa0}, StateElement: types.StateElement{LeafIndex: 30},
		SiacoinOutput: types.SiacoinOutput{Value: renterCost, Address: types.Address{0xbb}}}}
	second := vapi.Int("second-round", 0, 3)
	conn := &scriptConn{}
	conn.in.Write(encReq(proto4.RPCRenewContractID, &req))
	conn.respond = func(c *scriptConn) []byte {
		if c.round > 0 || second == 3 {
			return nil
		}
		rsig := renterKey.SignHash(consensus.State{}.RenewalSigHash(renewal))
		csig := renterKey.SignHash(consensus.State{}.ContractSigHash(renewal.NewContract))
		if second == 1 {
			rsig = types.Signature(vapi.ForgedSig("renewal"))
		} else if second == 2 {
			csig = types.Signature(vapi.ForgedSig("contract"))
		}
		return encResp(&proto4.RPCRenewContractSecondResponse{RenterRenewalSignature: rsig, RenterContractSignature: csig,
			RenterSatisfiedPolicies: []types.SatisfiedPolicy{{Policy: types.AnyoneCanSpend()}}})
	}
	err := srv.VerifHandle("renew", conn)
	funded := len(wal.reserved) > 0
	renewedID := id.V2RenewalID()
	vapi.Assert("renew.unlocked", !ec.VerifLocked(id))
	if err != nil {
		vapi.Assert("renew.fail-records-nothing", !ec.VerifHasContract(renewedID) && ec.VerifContracts() == 1)
		vapi.Assert("renew.fail-broadcasts-nothing", wal.broadcast == 0)
		cur, _, _ := ec.VerifContract(id)
		vapi.Assert("renew.fail-keeps-existing", cur == existing)
		if funded {
			vapi.Reach("failed-after-funding")
			for rid := range wal.reserved {
				vapi.Assert("renew.host-release", wal.released[rid])
			}
		}
		return
	}
	vapi.Reach("renewed")
	vapi.Assert("renew.gate", !badChallenge && second == 0 && !ch.failPool && (sameBasis || !ch.failUpdate))
	vapi.Assert("renew.recorded", ec.VerifHasContract(renewedID))
	vapi.Assert("renew.broadcast-once", wal.broadcast == 1)
	// one basis throughout: the index the final set's proofs are valid for
	vapi.Assert("renew.set-basis-consistent", ch.poolBasis == ch.setBasis && recBasis == ch.setBasis && wal.broadcastBasis == ch.setBasis)
	pi, ai := -1, -1
	for i, e := range log {
		switch e {
		case "pool":
			pi = i
		case "renew-contract":
			ai = i
		}
	}
	vapi.Assert("renew.record-after-pool", pi >= 0 && ai > pi)
	got, _, _ := ec.VerifContract(renewedID)
	sh := consensus.State{}.ContractSigHash(got)
	vapi.Assert("renew.contract-signed", renterKey.PublicKey().VerifyHash(sh, got.RenterSignature) && hostKey.PublicKey().VerifyHash(sh, got.HostSignature))
	_, newRoots, _ := ec.VerifContract(renewedID)
	vapi.Assert("renew.roots-carried-over", sameRoots(newRoots, oldRoots) && proto4.MetaRoot(newRoots) == got.FileMerkleRoot && got.Filesize == uint64(len(newRoots))*proto4.SectorSize)
	got.RenterSignature, got.HostSignature = types.Signature{}, types.Signature{}
	vapi.Assert("renew.contract-is-the-agreed-one", got == renewal.NewContract)
}

// VerifH_C16_refresh: contract refresh on the host (full and partial rollover):
// same obligations as renewal.
//
//verif:harness prop=C16,C09,C08 tier=quick replay=native require=renewed,failed-after-funding bounds="existing contract with 0..2 sectors; full or partial rollover; 1 renter input, 1..2 host inputs; basis relation, UpdateV2TransactionSet/pool failures and second-round selectors as in VerifH_C16_form (second round: honest / forged renewal signature / forged contract signature / absent); challenge selector"
func VerifH_C16_refresh() {
	partial := vapi.Bool("partial-rollover")
	hostKey, renterKey := keyFromByte(1), keyFromByte(2)
	tip := types.ChainIndex{Height: 50, ID: types.BlockID{7}}
	var log []string
	wal := &vWallet{reserved: map[types.SiacoinOutputID]bool{}, released: map[types.SiacoinOutputID]bool{}, nInputs: vapi.Int("host-inputs", 1, 2)}
	wal.basis = tip
	sameBasis := vapi.Bool("same-basis")
	reqBasis := tip
	if !sameBasis {
		reqBasis = types.ChainIndex{Height: 49, ID: types.BlockID{6}}
	}
	ch := &vFormChain{vChain: vChain{tip: tip}, log: &log}
	ch.failUpdate = vapi.Bool("update-fails")
	ch.failPool = vapi.Bool("pool-rejects")
	ch.tipMoved = vapi.Bool("block-arrives-during-the-rpc")
	var recBasis types.ChainIndex
	ec := testutil.VerifNewContractor(tip)
	settings := vFormSettings{proto4.HostSettings{AcceptingContracts: true, MaxCollateral: types.NewCurrency64(1 << 50), MaxContractDuration: 10000, WalletAddress: wal.Address()}}
	srv := rhp4.NewServer(hostKey, ch, contractorLog{ec, &log, &recBasis}, wal, settings, &vSectors{has: map[types.Hash256]bool{}})
	hw := &hostWorld{hostKey: hostKey}
	prices := hw.signedPrices(hostKey, time.Now().Add(time.Hour))
	// the existing contract
	id := types.FileContractID{0xc0}
	existing := types.V2FileContract{
		ProofHeight: 100, ExpirationHeight: 244,
		RenterOutput:    types.SiacoinOutput{Value: types.NewCurrency64(300), Address: types.Address{0xbb}},
		HostOutput:      types.SiacoinOutput{Value: types.NewCurrency64(700), Address: wal.Address()},
		MissedHostValue: types.NewCurrency64(600), TotalCollateral: types.NewCurrency64(600),
		RenterPublicKey: renterKey.PublicKey(), HostPublicKey: hostKey.PublicKey(), RevisionNumber: 5,
	}
	// the contract holds 0..2 sectors: its roots go with it into the new contract
	var oldRoots []types.Hash256
	nStored := vapi.Int("stored-sectors", 0, 2)
	for k := 0; k < nStored; k++ {
		oldRoots = append(oldRoots, rootN(k))
	}
	existing.Filesize = uint64(len(oldRoots)) * proto4.SectorSize
	existing.Capacity = existing.Filesize
	existing.FileMerkleRoot = proto4.MetaRoot(oldRoots)
	ec.VerifSetContract(id, existing, oldRoots)
	ec.VerifSetElement(id, types.V2FileContractElement{ID: id, StateElement: types.StateElement{LeafIndex: 9}, V2FileContract: existing})
	params := proto4.RPCRefreshContractParams{ContractID: id, Allowance: types.NewCurrency64(1000), Collateral: types.NewCurrency64(500)}
	req := proto4.RPCRefreshContractRequest{Prices: prices, Refresh: params, MinerFee: types.NewCurrency64(10), Basis: reqBasis}
	badChallenge := vapi.Bool("forge-challenge")
	if badChallenge {
		req.ChallengeSignature = types.Signature(vapi.ForgedSig("challenge"))
	} else {
		req.ChallengeSignature = renterKey.SignHash(req.ChallengeSigHash(existing.RevisionNumber))
	}
	var renewal types.V2FileContractRenewal
	rpcID, handler := proto4.RPCRefreshContractID, "refresh"
	if partial {
		renewal, _ = proto4.RefreshContractPartialRollover(existing, prices, wal.Address(), params)
		rpcID, handler = proto4.RPCRefreshPartialID, "refresh-partial"
	} else {
		renewal, _ = proto4.RefreshContractFullRollover(existing, prices, wal.Address(), params)
	}
	renterCost, _ := proto4.RefreshCost(consensus.State{}, prices, renewal, req.MinerFee)
	req.RenterInputs = []types.SiacoinElement{{ID: types.SiacoinOutputID{0xa0}, StateElement: types.StateElement{LeafIndex: 30},
		SiacoinOutput: types.SiacoinOutput{Value: renterCost, Address: types.Address{0xbb}}}}
	second := vapi.Int("second-round", 0, 3)
	conn := &scriptConn{}
	conn.in.Write(encReq(rpcID, &req))
	conn.respond = func(c *scriptConn) []byte {
		if c.round > 0 || second == 3 {
			return nil
		}
		rsig := renterKey.SignHash(consensus.State{}.RenewalSigHash(renewal))
		csig := renterKey.SignHash(consensus.State{}.ContractSigHash(renewal.NewContract))
		if second == 1 {
			rsig = types.Signature(vapi.ForgedSig("renewal"))
		} else if second == 2 {
			csig = types.Signature(vapi.ForgedSig("contract"))
		}
		return encResp(&proto4.RPCRefreshContractSecondResponse{RenterRenewalSignature: rsig, RenterContractSignature: csig,
			RenterSatisfiedPolicies: []types.SatisfiedPolicy{{Policy: types.AnyoneCanSpend()}}})
	}
	err := srv.VerifHandle(handler, conn)
	funded := len(wal.reserved) > 0
	renewedID := id.V2RenewalID()
	vapi.Assert("refresh.unlocked", !ec.VerifLocked(id))
	if err != nil {
		vapi.Assert("refresh.fail-records-nothing", !ec.VerifHasContract(renewedID) && ec.VerifContracts() == 1)
		vapi.Assert("refresh.fail-broadcasts-nothing", wal.broadcast == 0)
		cur, _, _ := ec.VerifContract(id)
		vapi.Assert("refresh.fail-keeps-existing", cur == existing)
		if funded {
			vapi.Reach("failed-after-funding")
			for rid := range wal.reserved {
				vapi.Assert("refresh.host-release", wal.released[rid])
			}
		}
		return
	}
	vapi.Reach("renewed")
	vapi.Assert("refresh.gate", !badChallenge && second == 0 && !ch.failPool && (sameBasis || !ch.failUpdate))
	vapi.Assert("refresh.recorded", ec.VerifHasContract(renewedID))
	vapi.Assert("refresh.broadcast-once", wal.broadcast == 1)
	// one basis throughout: the index the final set's proofs are valid for
	vapi.Assert("refresh.set-basis-consistent", ch.poolBasis == ch.setBasis && recBasis == ch.setBasis && wal.broadcastBasis == ch.setBasis)
	pi, ai := -1, -1
	for i, e := range log {
		switch e {
		case "pool":
			pi = i
		case "renew-contract":
			ai = i
		}
	}
	vapi.Assert("refresh.record-after-pool", pi >= 0 && ai > pi)
	got, _, _ := ec.VerifContract(renewedID)
	sh := consensus.State{}.ContractSigHash(got)
	vapi.Assert("refresh.contract-signed", renterKey.PublicKey().VerifyHash(sh, got.RenterSignature) && hostKey.PublicKey().VerifyHash(sh, got.HostSignature))
	_, newRoots, _ := ec.VerifContract(renewedID)
	vapi.Assert("refresh.roots-carried-over", sameRoots(newRoots, oldRoots) && proto4.MetaRoot(newRoots) == got.FileMerkleRoot && got.Filesize == uint64(len(newRoots))*proto4.SectorSize)
	got.RenterSignature, got.HostSignature = types.Signature{}, types.Signature{}
	vapi.Assert("refresh.contract-is-the-agreed-one", got == renewal.NewContract)
}
