package rhp

// C18 (RHP4 server part): Serve/Close under every interleaving (within the
// delay bound) of the accept loop, the per-stream goroutines, the remote side
// ending its streams, and Close.

import (
	"errors"
	"net"
	"time"

	"go.sia.tech/coreutils/internal/vapi"
	"go.sia.tech/coreutils/threadgroup"
	"go.uber.org/zap"
)

type c18Stream struct {
	w        *c18Srv
	reads    int
	written  int
	closed   bool
	admitted bool
}

type c18SAddr struct{}

func (c18SAddr) Network() string { return "verif" }
func (c18SAddr) String() string  { return "verif" }

func (s *c18Stream) Read(b []byte) (int, error) {
	// the handler is now in flight; the remote side ends the stream when released
	s.admitted = true
	s.reads++
	s.w.inflight++
	<-s.w.release
	s.w.inflight--
	return 0, errors.New("stream ended by peer")
}
func (s *c18Stream) Write(b []byte) (int, error)        { s.written += len(b); return len(b), nil }
func (s *c18Stream) Close() error                       { s.closed = true; return nil }
func (s *c18Stream) LocalAddr() net.Addr                { return c18SAddr{} }
func (s *c18Stream) RemoteAddr() net.Addr               { return c18SAddr{} }
func (s *c18Stream) SetDeadline(t time.Time) error      { return nil }
func (s *c18Stream) SetReadDeadline(t time.Time) error  { return nil }
func (s *c18Stream) SetWriteDeadline(t time.Time) error { return nil }

type c18Srv struct {
	streams  []*c18Stream
	next     int
	closed   chan struct{}
	isClosed bool
	release  chan struct{}
	inflight int
}

func (m *c18Srv) AcceptStream() (net.Conn, error) {
	if m.next < len(m.streams) {
		s := m.streams[m.next]
		m.next++
		return s, nil
	}
	<-m.closed
	return nil, net.ErrClosed
}

func (m *c18Srv) Close() error {
	if !m.isClosed { // (a real mux serialises Close internally)
		m.isClosed = true
		close(m.closed)
	}
	return nil
}

// VerifH_C18_serve: Close returns only after every admitted stream's handler
// has finished; streams that arrive afterwards are refused and closed; nothing
// is left running.
//
//verif:harness prop=C18 tier=quick replay=interp go=sched preempt=3 require=closed,refused,served bounds="1..3 streams, the remote side ends them at an arbitrary moment, Close at an arbitrary moment; ≤3 delays"
func VerifH_C18_serve() {
	srv := &Server{tg: threadgroup.New(), rpcTimeout: time.Minute}
	m := &c18Srv{closed: make(chan struct{}), release: make(chan struct{})}
	n := vapi.Int("streams", 1, 3)
	for k := 0; k < n; k++ {
		m.streams = append(m.streams, &c18Stream{w: m})
	}
	var serveErr error
	served := false
	go func() {
		serveErr = srv.Serve(m, zap.NewNop())
		served = true
	}()
	go func() { close(m.release) }() // the remote side gives up at some point
	vapi.Yield()
	srv.Close()
	vapi.Assert("close.no-handler-in-flight", m.inflight == 0)
	for _, s := range m.streams {
		if s.admitted {
			vapi.Assert("close.admitted-stream-finished", s.closed)
			vapi.Reach("served")
		}
	}
	vapi.Reach("closed")
	// the transport is torn down afterwards (as the callers do)
	m.Close()
	left := vapi.WaitIdle()
	vapi.Note("blocked", vapi.Blocked())
	vapi.Assert("close.no-goroutine-left", left == 0)
	vapi.Assert("close.serve-returned-nil", served && serveErr == nil)
	for _, s := range m.streams[:m.next] {
						vapi.Assert("close.every-accepted-stream-closed", s.closed)
		if !s.admitted {
			// arrived after Close: told so, never read
			vapi.Assert("close.late-stream-refused", s.written > 0 && s.reads == 0)
			vapi.Reach("refused")
		}
	}
}

//verif:harness prop=C18 tier=thorough replay=interp go=sched preempt=5 require=closed,refused,served bounds="as VerifH_C18_serve with ≤5 delays"
func VerifH_C18_serve_deep() { VerifH_C18_serve() }
