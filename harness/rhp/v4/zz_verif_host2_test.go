package rhp_test

import (
	"bytes"
	"time"

	"go.sia.tech/core/consensus"
	proto4 "go.sia.tech/core/rhp/v4"
	"go.sia.tech/core/types"
	"go.sia.tech/coreutils/internal/vapi"
)

// ---- append sectors ----------------------------------------------------------

func verifAppend(tag string) {
	n := vapi.Int("sectors", 0, 3)
	w := newHostWorld(n)
	k := vapi.Int("nAppend", 1, 2)
	var sectors []types.Hash256
	var wantAppended []types.Hash256
	for i := 0; i < k; i++ {
		r := rootN(10 + i)
		sectors = append(sectors, r)
		stored := vapi.Bool("stored")
		w.sectors.has[r] = stored
		if stored {
			wantAppended = append(wantAppended, r)
		}
	}
	req := proto4.RPCAppendSectorsRequest{ContractID: w.id, Prices: w.prices, Sectors: sectors}
	badPrices := w.corruptPrices(&req.Prices)
	chHash := req.ChallengeSigHash(w.fc.RevisionNumber + 1)
	badChallenge := vapi.Bool("forge-challenge")
	if badChallenge {
		req.ChallengeSignature = arbitrarySig("challenge", w.fc.RenterPublicKey, chHash)
	} else {
		req.ChallengeSignature = w.renterKey.SignHash(chHash)
	}
	second := vapi.Int("second-round", 0, 2)
	var wantUsage proto4.Usage
	conn := &scriptConn{}
	conn.in.Write(encReq(proto4.RPCAppendSectorsID, &req))
	conn.respond = func(c *scriptConn) []byte {
		if c.round > 0 || second == 2 {
			return nil
		}
		var resp proto4.RPCAppendSectorsResponse
		if err := proto4.ReadResponse(bytes.NewReader(c.out.Bytes()), &resp); err != nil {
			return nil
		}
		var appended uint64
		for _, a := range resp.Accepted {
			if a {
				appended++
			}
		}
		rev, usage, err := proto4.ReviseForAppendSectors(w.fc, req.Prices, resp.NewMerkleRoot, appended)
		if err != nil {
			return nil
		}
		wantUsage = usage
		sh := consensus.State{}.ContractSigHash(rev)
		sig := w.renterKey.SignHash(sh)
		if second == 1 {
			sig = arbitrarySig("revsig", w.fc.RenterPublicKey, sh)
		}
		return encResp(&proto4.RPCAppendSectorsSecondResponse{RenterSignature: sig})
	}
	before := w.snap()
	err := w.server.VerifHandle("append", conn)
	after := w.snap()
	w.checkCommit(tag)
	if err != nil {
		vapi.Assert(tag+".abort-clean.revision", sameContract(before.fc, after.fc))
		vapi.Assert(tag+".abort-clean.roots", sameRoots(before.roots, after.roots))
		vapi.Assert(tag+".abort-clean.no-signature-released", !releasedFinal(conn.out.Bytes(), &proto4.RPCAppendSectorsResponse{}, &proto4.RPCAppendSectorsThirdResponse{}))
		vapi.Reach("failed")
		return
	}
	vapi.Reach("appended")
	vapi.Assert(tag+".gate", !badPrices && !badChallenge && second == 0 && !w.unrevisable)
	vapi.Assert(tag+".model", sameRoots(after.roots, append(append([]types.Hash256(nil), w.roots...), wantAppended...)))
	checkRevision(tag, before.fc, after.fc, wantUsage.RenterCost())
	// the charge is the price-table cost of what was actually appended
	growth := uint64(len(wantAppended))
	vapi.Assert(tag+".charge-by-prices", wantUsage == w.prices.RPCAppendSectorsCost(growth, w.fc.ExpirationHeight-w.prices.TipHeight))
}

// VerifH_C09_append: append-sectors keeps roots and revision consistent on
// every exit and appends exactly the sectors the host stores.
//
//verif:harness prop=C08,C09 tier=quick replay=native require=appended,failed bounds="contract of 0..3 sectors; 1..2 roots each stored or unknown; challenge/prices/second-round selectors as in VerifH_C09_free"
func VerifH_C09_append() { verifAppend("append") }

// ---- sector roots ------------------------------------------------------------

func verifRoots(tag string) {
	n := vapi.Int("sectors", 1, 4)
	w := newHostWorld(n)
	// the offset is any 64-bit value (the request is untrusted input)
	off := vapi.U64("offset")
	length := uint64(vapi.Int("length", 0, 5))
	req := proto4.RPCSectorRootsRequest{ContractID: w.id, Prices: w.prices, Offset: off, Length: length}
	badPrices := w.corruptPrices(&req.Prices)
	rev, usage, rerr := proto4.ReviseForSectorRoots(w.fc, req.Prices, length)
	sh := consensus.State{}.ContractSigHash(rev)
	badSig := vapi.Bool("forge-signature")
	if badSig || rerr != nil {
		req.RenterSignature = arbitrarySig("revsig", w.fc.RenterPublicKey, sh)
		badSig = true
	} else {
		req.RenterSignature = w.renterKey.SignHash(sh)
	}
	conn := &scriptConn{}
	conn.in.Write(encReq(proto4.RPCSectorRootsID, &req))
	before := w.snap()
	err := w.server.VerifHandle("roots", conn)
	after := w.snap()
	w.checkCommit(tag)
	inRange := length > 0 && off <= uint64(n) && length <= uint64(n)-off
	if err != nil {
		vapi.Assert(tag+".abort-clean.revision", sameContract(before.fc, after.fc))
		vapi.Assert(tag+".abort-clean.roots", sameRoots(before.roots, after.roots))
		vapi.Assert(tag+".abort-clean.no-signature-released", !releasedFinal(conn.out.Bytes(), nil, &proto4.RPCSectorRootsResponse{}))
		vapi.Reach("failed")
		return
	}
	vapi.Reach("listed")
	vapi.Assert(tag+".gate", !badPrices && !badSig && inRange && !w.unrevisable)
	vapi.Assert(tag+".roots-unchanged", sameRoots(before.roots, after.roots))
	checkRevision(tag, before.fc, after.fc, usage.RenterCost())
	var resp proto4.RPCSectorRootsResponse
	vapi.Assert(tag+".response", proto4.ReadResponse(bytes.NewReader(conn.out.Bytes()), &resp) == nil)
	vapi.Assert(tag+".served-range", sameRoots(resp.Roots, w.roots[off:off+length]))
	vapi.Assert(tag+".served-signature", resp.HostSignature == after.fc.HostSignature)
}

//verif:harness prop=C08,C09 tier=quick replay=native require=listed,failed bounds="contract of 1..4 sectors; offset any 64-bit value, length 0..5; prices and signature selectors"
func VerifH_C09_roots() { verifRoots("roots") }

// ---- fund accounts -----------------------------------------------------------

func acctN(k int) (a proto4.Account) {
	a[0], a[31] = byte(k+1), 0xac
	return
}

func verifFund(tag string) {
	w := newHostWorld(1)
	k := vapi.Int("nDeposits", 1, 2)
	var deposits []proto4.AccountDeposit
	var total types.Currency
	pre := make([]types.Currency, k)
	for i := 0; i < k; i++ {
		amt := types.NewCurrency64(vapi.UBits("amount", 40))
		acct := acctN(i)
		if i == 1 && vapi.Bool("same-account") {
			acct = acctN(0)
		}
		deposits = append(deposits, proto4.AccountDeposit{Account: acct, Amount: amt})
		total = total.Add(amt)
		bal := types.NewCurrency64(vapi.UBits("balance", 40))
		if i == 0 || acct != acctN(0) {
			w.contractor.VerifSetAccount(acct, bal)
		}
		pre[i] = w.contractor.VerifAccount(acct)
	}
	req := proto4.RPCFundAccountsRequest{ContractID: w.id, Deposits: deposits}
	rev, _, rerr := proto4.ReviseForFundAccounts(w.fc, total)
	sh := consensus.State{}.ContractSigHash(rev)
	badSig := vapi.Bool("forge-signature")
	if badSig || rerr != nil {
		req.RenterSignature = arbitrarySig("revsig", w.fc.RenterPublicKey, sh)
		badSig = true
	} else {
		req.RenterSignature = w.renterKey.SignHash(sh)
	}
	conn := &scriptConn{}
	conn.in.Write(encReq(proto4.RPCFundAccountsID, &req))
	before := w.snap()
	err := w.server.VerifHandle("fund", conn)
	after := w.snap()
	w.checkCommit(tag)
	if err != nil {
		vapi.Assert(tag+".abort-clean.revision", sameContract(before.fc, after.fc))
		vapi.Assert(tag+".abort-clean.no-signature-released", !releasedFinal(conn.out.Bytes(), nil, &proto4.RPCFundAccountsResponse{}))
		for i := range deposits {
			vapi.Assert(tag+".abort-clean.balances", w.contractor.VerifAccount(deposits[i].Account) == pre[i])
		}
		vapi.Reach("failed")
		return
	}
	vapi.Reach("funded")
	vapi.Assert(tag+".gate", !badSig && !w.unrevisable)
	checkRevision(tag, before.fc, after.fc, total)
	// credits equal the transfer: every account grew by what was deposited into it
	var credited types.Currency
	seen := map[proto4.Account]bool{}
	for i := range deposits {
		a := deposits[i].Account
		if seen[a] {
			continue
		}
		seen[a] = true
		credited = credited.Add(w.contractor.VerifAccount(a).Sub(pre[i]))
	}
	vapi.Assert(tag+".credit-equals-transfer", credited == total)
}

//verif:harness prop=C08,C15 tier=quick replay=native require=funded,failed bounds="1..2 deposits (possibly to the same account) of symbolic amounts < 2^40; balances symbolic; signature selector"
func VerifH_C08_fund() { verifFund("fund") }

// ---- replenish accounts / pools ------------------------------------------------

func verifReplenish(tag string, pools bool) { verifReplenishX(tag, pools, false) }

// verifReplenishX: with interleave, account 0 is debited by another RPC
// between the host's announcement of the deposits and the renter's signature.
func verifReplenishX(tag string, pools, interleave bool) {
	w := newHostWorld(1)
	var debit types.Currency
	k := vapi.Int("nAccounts", 1, 2)
	target := types.NewCurrency64(vapi.UBits("target", 40))
	var accounts []proto4.Account
	pre := make([]types.Currency, k)
	for i := 0; i < k; i++ {
		a := acctN(i)
		accounts = append(accounts, a)
		bal := types.NewCurrency64(vapi.UBits("balance", 40))
		if pools {
			w.contractor.VerifSetPool(a, bal)
		} else {
			w.contractor.VerifSetAccount(a, bal)
		}
		pre[i] = bal
	}
	req := proto4.RPCReplenishAccountsRequest{Accounts: accounts, Target: target, ContractID: w.id}
	chHash := req.ChallengeSigHash(w.fc.RevisionNumber) // replenish challenges cover the current number
	badChallenge := vapi.Bool("forge-challenge")
	if badChallenge {
		req.ChallengeSignature = arbitrarySig("challenge", w.fc.RenterPublicKey, chHash)
	} else {
		req.ChallengeSignature = w.renterKey.SignHash(chHash)
	}
	second := vapi.Int("second-round", 0, 2)
	var sum types.Currency
	conn := &scriptConn{}
	id := proto4.RPCReplenishAccountsID
	rpc := "replenish"
	if pools {
		id, rpc = proto4.RPCReplenishPoolsID, "replenish-pools"
	}
	conn.in.Write(encReq(id, &req))
	conn.respond = func(c *scriptConn) []byte {
		if c.round > 0 || second == 2 {
			return nil
		}
		var resp proto4.RPCReplenishAccountsResponse
		if err := proto4.ReadResponse(bytes.NewReader(c.out.Bytes()), &resp); err != nil {
			return nil
		}
		if interleave {
			// a paid RPC on account 0 is served right now
			d := vapi.UBits("interleaved-debit", 40)
			vapi.Assume(d >= 1 && types.NewCurrency64(d).Cmp(pre[0]) <= 0)
			debit = types.NewCurrency64(d)
			pre[0] = pre[0].Sub(debit)
			if pools {
				w.contractor.VerifSetPool(accounts[0], pre[0])
			} else {
				w.contractor.VerifSetAccount(accounts[0], pre[0])
			}
		}
		sum = types.ZeroCurrency
		for _, d := range resp.Deposits {
			sum = sum.Add(d.Amount)
		}
		rev, _, err := proto4.ReviseForReplenish(w.fc, sum)
		if err != nil {
			return nil
		}
		sh := consensus.State{}.ContractSigHash(rev)
		sig := w.renterKey.SignHash(sh)
		if second == 1 {
			sig = arbitrarySig("revsig", w.fc.RenterPublicKey, sh)
		}
		return encResp(&proto4.RPCReplenishAccountsSecondResponse{RenterSignature: sig})
	}
	bal := func(a proto4.Account) types.Currency {
		if pools {
			v, _ := w.contractor.VerifPool(a)
			return v
		}
		return w.contractor.VerifAccount(a)
	}
	before := w.snap()
	err := w.server.VerifHandle(rpc, conn)
	after := w.snap()
	w.checkCommit(tag)
	// reference: deposit_i = max(target - balance_i, 0), with the balances the
	// host announced its deposits for (before any interleaved debit)
	var want types.Currency
	wantDep := make([]types.Currency, k)
	for i := range accounts {
		announcedFor := pre[i]
		if i == 0 {
			announcedFor = announcedFor.Add(debit)
		}
		if target.Cmp(announcedFor) > 0 {
			wantDep[i] = target.Sub(announcedFor)
		}
		want = want.Add(wantDep[i])
	}
	if err != nil || sameContract(before.fc, after.fc) {
		vapi.Assert(tag+".abort-clean.revision", sameContract(before.fc, after.fc))
		vapi.Assert(tag+".abort-clean.no-signature-released", !releasedFinal(conn.out.Bytes(), &proto4.RPCReplenishAccountsResponse{}, &proto4.RPCReplenishAccountsThirdResponse{}))
		for i := range accounts {
			vapi.Assert(tag+".abort-clean.balances", bal(accounts[i]) == pre[i])
		}
		if err == nil {
			// nothing to do: every balance already at or above the target
			vapi.Assert(tag+".nothing-needed", want.IsZero() && !badChallenge && !w.unrevisable)
			vapi.Reach("nothing-needed")
		} else {
			vapi.Reach("failed")
		}
		return
	}
	vapi.Reach("replenished")
	vapi.Assert(tag+".gate", !badChallenge && second == 0 && !w.unrevisable)
	checkRevision(tag, before.fc, after.fc, want)
	for i := range accounts {
		// exactly what the signed revision moved is credited, whatever else
		// happened to the balance meanwhile
		vapi.Assert(tag+".topped-up-to-target", bal(accounts[i]) == pre[i].Add(wantDep[i]))
		vapi.Assert(tag+".never-beyond-target", bal(accounts[i]).Cmp(target) <= 0 || bal(accounts[i]) == pre[i])
	}
}

//verif:harness prop=C08,C15 tier=quick replay=native require=replenished,failed,nothing-needed bounds="1..2 distinct accounts, symbolic target and balances < 2^40; challenge and second-round selectors"
func VerifH_C08_replenish() { verifReplenish("replenish", false) }

//verif:harness prop=C08,C15 tier=quick replay=native require=replenished,failed,nothing-needed bounds="as VerifH_C08_replenish, pools"
func VerifH_C15_replenish_pools() { verifReplenish("replenish-pools", true) }

//verif:harness prop=C08,C15 tier=quick replay=native require=replenished,failed bounds="as VerifH_C08_replenish with 1..2 accounts, and a debit of account 0 (symbolic, ≤ its balance) served between the host's announcement and the renter's signature"
func VerifH_C15_replenish_interleaved() { verifReplenishX("replenish-interleaved", false, true) }


var _ = time.Now
