package rhp_test

// C16, renter side: RPCFormContract against a scripted host that answers
// honestly and then fails, stops or cheats at a chosen message boundary.

import (
	"bytes"
	"context"
	"errors"
	"net"

	"go.sia.tech/core/consensus"
	proto4 "go.sia.tech/core/rhp/v4"
	"go.sia.tech/core/types"
	"go.sia.tech/coreutils/internal/vapi"
	rhp4 "go.sia.tech/coreutils/rhp/v4"
)

// rSigner is the renter's wallet/signer: records what is reserved and released.
type rSigner struct {
	key      types.PrivateKey
	nInputs  int
	failFund bool
	reserved map[types.SiacoinOutputID]bool
	released map[types.SiacoinOutputID]bool
	signed   int
}

func (s *rSigner) SignHash(h types.Hash256) types.Signature { return s.key.SignHash(h) }
func (s *rSigner) SignV2Inputs(txn *types.V2Transaction, toSign []int) {
	s.signed++
	for _, i := range toSign {
		txn.SiacoinInputs[i].SatisfiedPolicy = types.SatisfiedPolicy{Policy: types.AnyoneCanSpend()}
	}
}
func (s *rSigner) RecommendedFee() types.Currency { return types.NewCurrency64(1) }
func (s *rSigner) FundV2Transaction(txn *types.V2Transaction, amount types.Currency) (types.ChainIndex, []int, error) {
	if s.failFund {
		return types.ChainIndex{}, nil, errors.New("wallet: insufficient balance")
	}
	var toSign []int
	for i := 0; i < s.nInputs; i++ {
		id := types.SiacoinOutputID{0xa0, byte(i)}
		toSign = append(toSign, len(txn.SiacoinInputs))
		v := amount
		if i > 0 {
			v = types.NewCurrency64(7)
		}
		txn.SiacoinInputs = append(txn.SiacoinInputs, types.V2SiacoinInput{Parent: types.SiacoinElement{ID: id, StateElement: types.StateElement{LeafIndex: uint64(30 + i)}, SiacoinOutput: types.SiacoinOutput{Value: v, Address: types.Address{0xbb}}}})
		s.reserved[id] = true
	}
	return types.ChainIndex{Height: 50, ID: types.BlockID{7}}, toSign, nil
}
func (s *rSigner) ReleaseInputs(txns []types.V2Transaction) {
	for i := range txns {
		for _, in := range txns[i].SiacoinInputs {
			s.released[in.Parent.ID] = true
		}
	}
}
func (s *rSigner) allReleased() bool {
	for id := range s.reserved {
		if !s.released[id] {
			return false
		}
	}
	return true
}
func (s *rSigner) noneReleased() bool {
	for id := range s.reserved {
		if s.released[id] {
			return false
		}
	}
	return true
}

type rPool struct {
	fail       bool
	withParent bool // the renter's input is unconfirmed: its parent comes first in the set
}

var rPoolParent = types.V2Transaction{ArbitraryData: []byte("parent of the renter's input")}

func (p rPool) V2TransactionSet(basis types.ChainIndex, txn types.V2Transaction) (types.ChainIndex, []types.V2Transaction, error) {
	if p.fail {
		return types.ChainIndex{}, nil, errors.New("pool: unknown parent")
	}
	if p.withParent {
		return basis, []types.V2Transaction{rPoolParent, txn}, nil
	}
	return basis, []types.V2Transaction{txn}, nil
}

// VerifH_C16_renter_form: when RPCFormContract fails at any step after funding,
// every renter input is released; when it succeeds, nothing is released, the
// returned contract is the locally built one carrying a host signature that
// verifies, its id is derived from the renter's own transaction, and the
// host's set ends in that very transaction.
//
//verif:harness prop=C16 tier=quick replay=native go=skip require=formed,failed-released,unfunded bounds="1..2 renter inputs, confirmed or with one unconfirmed parent; funding / pool lookup fail by selector; host funding below / equal to / above the collateral; the host stops after 0, 1 or 2 messages; final set: genuine / empty / without contract / a different transaction (altered fee, extra output, other contract terms) / forged or foreign host signature"
func VerifH_C16_renter_form() {
	hostKey, renterKey := keyFromByte(1), keyFromByte(2)
	sg := &rSigner{key: renterKey, nInputs: vapi.Int("renter-inputs", 1, 2), reserved: map[types.SiacoinOutputID]bool{}, released: map[types.SiacoinOutputID]bool{}}
	sg.failFund = vapi.Bool("fund-fails")
	pool := rPool{fail: vapi.Bool("pool-fails"), withParent: vapi.Bool("unconfirmed-input")}
	hw := &hostWorld{hostKey: hostKey}
	w := newClientWorld(0)
	prices := w.prices
	_ = hw
	hostAddr := types.Address{0xaa}
	params := proto4.RPCFormContractParams{RenterPublicKey: renterKey.PublicKey(), RenterAddress: types.Address{0xbb}, Allowance: types.NewCurrency64(1000), Collateral: types.NewCurrency64(500), ProofHeight: 400}
	cs := consensus.State{}
	fc, _ := proto4.NewContract(prices, params, hostKey.PublicKey(), hostAddr)

	stopAfter := vapi.Int("host-stops-after", 0, 2) // messages the host sends before going silent (2 = completes)
	funding := vapi.Int("host-funding", 0, 2)       // below, equal, above the collateral
	final := vapi.Int("final-set", 0, 6)
	var hostInputs []types.V2SiacoinInput
	honest := stopAfter == 2 && funding > 0 && final == 0
	w.t.conn.respond = func(c *scriptConn) []byte {
		if c.round >= stopAfter {
			return nil
		}
		switch c.round {
		case 0:
			v := fc.TotalCollateral
			switch funding {
			case 0:
				v = v.Sub(types.NewCurrency64(1))
			case 2:
				v = v.Add(types.NewCurrency64(9))
			}
			hostInputs = []types.V2SiacoinInput{{Parent: types.SiacoinElement{ID: types.SiacoinOutputID{0xb0}, StateElement: types.StateElement{LeafIndex: 70}, SiacoinOutput: types.SiacoinOutput{Value: v, Address: hostAddr}},
				SatisfiedPolicy: types.SatisfiedPolicy{Policy: types.AnyoneCanSpend()}}}
			return encResp(&proto4.RPCFormContractResponse{HostInputs: hostInputs})
		case 1:
			// what the renter sent: its contract signature and input policies
			var second proto4.RPCFormContractSecondResponse
			b := clientWritten(c)
			var req proto4.RPCFormContractRequest
			r := bytes.NewReader(b)
			if err := proto4.ReadRequest(r, &req); err != nil {
				return nil
			}
			if err := proto4.ReadResponse(r, &second); err != nil {
				return nil
			}
			// the host rebuilds the transaction as the real server does
			txn := types.V2Transaction{MinerFee: req.MinerFee, FileContracts: []types.V2FileContract{fc}}
			for i, el := range req.RenterInputs {
				txn.SiacoinInputs = append(txn.SiacoinInputs, types.V2SiacoinInput{Parent: el, SatisfiedPolicy: second.RenterSatisfiedPolicies[i]})
			}
			txn.SiacoinInputs = append(txn.SiacoinInputs, hostInputs...)
			if funding == 2 {
				txn.SiacoinOutputs = append(txn.SiacoinOutputs, types.SiacoinOutput{Address: hostAddr, Value: types.NewCurrency64(9)})
			}
			txn.FileContracts[0].RenterSignature = second.RenterContractSignature
			sigHash := cs.ContractSigHash(fc)
			txn.FileContracts[0].HostSignature = hostKey.SignHash(sigHash)
			resp := proto4.RPCFormContractThirdResponse{Basis: req.Basis, TransactionSet: []types.V2Transaction{txn}}
			if len(req.RenterParents) > 0 {
				// parents first, the formation transaction last
				resp.TransactionSet = append(append([]types.V2Transaction(nil), req.RenterParents...), txn)
			}
			lastIdx := len(resp.TransactionSet) - 1
			switch final {
			case 1:
				resp.TransactionSet = nil
			case 2:
				resp.TransactionSet[lastIdx].FileContracts = nil
			case 3: // a different transaction: the fee was changed
				resp.TransactionSet[lastIdx].MinerFee = req.MinerFee.Add(types.NewCurrency64(1))
			case 4: // a different transaction: other contract terms, signed by the host
				other := fc
				other.HostOutput.Value = other.HostOutput.Value.Add(types.NewCurrency64(1))
				other.RenterSignature = second.RenterContractSignature
				other.HostSignature = hostKey.SignHash(cs.ContractSigHash(other))
				resp.TransactionSet[lastIdx].FileContracts[0] = other
			case 5:
				resp.TransactionSet[lastIdx].FileContracts[0].HostSignature = types.Signature(vapi.ForgedSig("hostsig"))
			case 6: // signed by somebody else
				resp.TransactionSet[lastIdx].FileContracts[0].HostSignature = keyFromByte(9).SignHash(sigHash)
			}
			return encResp(&resp)
		}
		return nil
	}
	res, err := rhp4.RPCFormContract(context.Background(), w.t, pool, sg, cs, prices, hostKey.PublicKey(), hostAddr, params)
	if err != nil {
		vapi.Assert("renter-form.honest-host-succeeds", !honest || sg.failFund || pool.fail)
		if len(sg.reserved) == 0 {
			vapi.Reach("unfunded")
			return
		}
		vapi.Reach("failed-released")
		vapi.Assert("renter-form.failure-releases-every-input", sg.allReleased())
		return
	}
	vapi.Reach("formed")
	vapi.Assert("renter-form.success-only-with-an-honest-host", honest)
	vapi.Assert("renter-form.success-releases-nothing", sg.noneReleased())
	sigHash := cs.ContractSigHash(fc)
	got := res.Contract.Revision
	vapi.Assert("renter-form.host-signature-verifies", hostKey.PublicKey().VerifyHash(sigHash, got.HostSignature))
	vapi.Assert("renter-form.renter-signature-verifies", renterKey.PublicKey().VerifyHash(sigHash, got.RenterSignature))
	g := got
	g.HostSignature, g.RenterSignature = types.Signature{}, types.Signature{}
	vapi.Assert("renter-form.contract-is-the-agreed-one", g == fc)
	set := res.FormationSet.Transactions
	vapi.Assert("renter-form.set-ends-in-the-formation", len(set) > 0 && len(set[len(set)-1].FileContracts) == 1)
	last := set[len(set)-1]
	vapi.Assert("renter-form.id-from-the-formation-transaction", res.Contract.ID == last.V2FileContractID(last.ID(), 0))
	lf := last.FileContracts[0]
	lf.HostSignature, lf.RenterSignature = types.Signature{}, types.Signature{}
	vapi.Assert("renter-form.set-creates-the-agreed-contract", lf == fc)
	// funding as agreed: the renter's inputs pay its cost, the host's the collateral
	var hostIn types.Currency
	for _, in := range last.SiacoinInputs {
		if in.Parent.SiacoinOutput.Address == hostAddr {
			hostIn = hostIn.Add(in.Parent.SiacoinOutput.Value)
		}
	}
	var hostChange types.Currency
	for _, o := range last.SiacoinOutputs {
		if o.Address == hostAddr {
			hostChange = hostChange.Add(o.Value)
		}
	}
	vapi.Assert("renter-form.host-funds-the-collateral", hostIn.Sub(hostChange) == fc.TotalCollateral)
}

// dialFailTransport refuses to open a stream when told so.
type dialFailTransport struct {
	*vTransport
	fail bool
}

func (t dialFailTransport) DialStream(ctx context.Context) (net.Conn, error) {
	if t.fail {
		return nil, errors.New("transport: connection refused")
	}
	return t.vTransport.DialStream(ctx)
}

// VerifH_C16_renter_renew: RPCRenewContract / RPCRefreshContract (full and
// partial rollover) on the renter.
//
//verif:harness prop=C16 tier=quick replay=native go=skip require=renewed,failed-released,unfunded bounds="renew / refresh-full / refresh-partial; 1..2 renter inputs; funding, pool lookup or dialling fail by selector; host funding below / equal to / above its cost; the host stops after 0, 1 or 2 messages; final set: genuine / empty / no resolution / not a renewal / forged renewal signature / forged contract signature / other contract terms under the genuine signatures"
func VerifH_C16_renter_renew() {
	hostKey, renterKey := keyFromByte(1), keyFromByte(2)
	kind := vapi.Int("kind", 0, 2)
	sg := &rSigner{key: renterKey, nInputs: vapi.Int("renter-inputs", 1, 2), reserved: map[types.SiacoinOutputID]bool{}, released: map[types.SiacoinOutputID]bool{}}
	sg.failFund = vapi.Bool("fund-fails")
	pool := rPool{fail: vapi.Bool("pool-fails")}
	w := newClientWorld(1)
	prices := w.prices
	hostAddr := types.Address{0xaa}
	existing := w.contract.Revision
	existing.HostOutput.Address = hostAddr
	existing.HostOutput.Value = types.NewCurrency64(1 << 46)
	cs := consensus.State{}
	var renewal types.V2FileContractRenewal
	var hostCost types.Currency
	fee := sg.RecommendedFee().Mul64(1000)
	cid := w.contract.ID
	switch kind {
	case 0:
		params := proto4.RPCRenewContractParams{ContractID: cid, Allowance: types.NewCurrency64(1000), Collateral: types.NewCurrency64(500), ProofHeight: 400}
		renewal, _ = proto4.RenewContract(existing, prices, hostAddr, params)
		_, hostCost = proto4.RenewalCost(cs, renewal, fee)
	case 1:
		params := proto4.RPCRefreshContractParams{ContractID: cid, Allowance: types.NewCurrency64(1000), Collateral: types.NewCurrency64(500)}
		renewal, _ = proto4.RefreshContractFullRollover(existing, prices, hostAddr, params)
		_, hostCost = proto4.RefreshCost(cs, prices, renewal, fee)
	case 2:
		params := proto4.RPCRefreshContractParams{ContractID: cid, Allowance: types.NewCurrency64(1000), Collateral: types.NewCurrency64(500)}
		renewal, _ = proto4.RefreshContractPartialRollover(existing, prices, hostAddr, params)
		_, hostCost = proto4.RefreshCost(cs, prices, renewal, fee)
	}
	agreed := renewal.NewContract
	tr := dialFailTransport{vTransport: w.t, fail: vapi.Bool("dial-fails")}
	stopAfter := vapi.Int("host-stops-after", 0, 2)
	funding := vapi.Int("host-funding", 0, 2)
	final := vapi.Int("final-set", 0, 6)
	if funding == 0 && hostCost.IsZero() {
		vapi.Assume(false)
	}
	honest := !tr.fail && stopAfter == 2 && funding > 0 && final == 0
	var hostInputs []types.V2SiacoinInput
	w.t.conn.respond = func(c *scriptConn) []byte {
		if c.round >= stopAfter {
			return nil
		}
		switch c.round {
		case 0:
			v := hostCost
			switch funding {
			case 0:
				v = v.Sub(types.NewCurrency64(1))
			case 2:
				v = v.Add(types.NewCurrency64(9))
			}
			hostInputs = []types.V2SiacoinInput{{Parent: types.SiacoinElement{ID: types.SiacoinOutputID{0xb0}, StateElement: types.StateElement{LeafIndex: 70}, SiacoinOutput: types.SiacoinOutput{Value: v, Address: hostAddr}},
				SatisfiedPolicy: types.SatisfiedPolicy{Policy: types.AnyoneCanSpend()}}}
			if kind == 0 {
				return encResp(&proto4.RPCRenewContractResponse{HostInputs: hostInputs})
			}
			return encResp(&proto4.RPCRefreshContractResponse{HostInputs: hostInputs})
		case 1:
			// the host signs what was agreed (it derives the same renewal) and
			// fills in the renter's signatures from the second message
			hr := renewal
			{
				r := bytes.NewReader(clientWritten(c))
				var second proto4.RPCRenewContractSecondResponse // (same layout for refresh)
				var err error
				if kind == 0 {
					var req proto4.RPCRenewContractRequest
					err = proto4.ReadRequest(r, &req)
				} else {
					var req proto4.RPCRefreshContractRequest
					err = proto4.ReadRequest(r, &req)
				}
				if err != nil || proto4.ReadResponse(r, &second) != nil {
					return nil
				}
				hr.RenterSignature = second.RenterRenewalSignature
				hr.NewContract.RenterSignature = second.RenterContractSignature
			}
			hr.HostSignature = hostKey.SignHash(cs.RenewalSigHash(renewal))
			hr.NewContract.HostSignature = hostKey.SignHash(cs.ContractSigHash(agreed))
			txn := types.V2Transaction{MinerFee: fee, SiacoinInputs: hostInputs,
				FileContractResolutions: []types.V2FileContractResolution{{Parent: types.V2FileContractElement{ID: cid, V2FileContract: existing}, Resolution: &hr}}}
			set := []types.V2Transaction{txn}
			switch final {
			case 1:
				set = nil
			case 2:
				set[0].FileContractResolutions = nil
			case 3:
				set[0].FileContractResolutions[0].Resolution = &types.V2FileContractExpiration{}
			case 4:
				hr.HostSignature = types.Signature(vapi.ForgedSig("renewal-sig"))
			case 5:
				hr.NewContract.HostSignature = types.Signature(vapi.ForgedSig("contract-sig"))
			case 6: // other terms, under the signatures made for the agreed contract
				hr.NewContract.HostOutput.Value = hr.NewContract.HostOutput.Value.Add(types.NewCurrency64(77))
				hr.NewContract.RenterOutput.Value = types.ZeroCurrency
			}
			if kind == 0 {
				return encResp(&proto4.RPCRenewContractThirdResponse{Basis: types.ChainIndex{Height: 50, ID: types.BlockID{7}}, TransactionSet: set})
			}
			return encResp(&proto4.RPCRefreshContractThirdResponse{Basis: types.ChainIndex{Height: 50, ID: types.BlockID{7}}, TransactionSet: set})
		}
		return nil
	}
	var got rhp4.ContractRevision
	var err error
	switch kind {
	case 0:
		var res rhp4.RPCRenewContractResult
		res, err = rhp4.RPCRenewContract(context.Background(), tr, pool, sg, cs, prices, hostAddr, existing, proto4.RPCRenewContractParams{ContractID: cid, Allowance: types.NewCurrency64(1000), Collateral: types.NewCurrency64(500), ProofHeight: 400})
		got = res.Contract
	case 1:
		var res rhp4.RPCRefreshContractResult
		res, err = rhp4.RPCRefreshContractFullRollover(context.Background(), tr, pool, sg, cs, prices, hostAddr, existing, proto4.RPCRefreshContractParams{ContractID: cid, Allowance: types.NewCurrency64(1000), Collateral: types.NewCurrency64(500)})
		got = res.Contract
	case 2:
		var res rhp4.RPCRefreshContractResult
		res, err = rhp4.RPCRefreshContractPartialRollover(context.Background(), tr, pool, sg, cs, prices, hostAddr, existing, proto4.RPCRefreshContractParams{ContractID: cid, Allowance: types.NewCurrency64(1000), Collateral: types.NewCurrency64(500)})
		got = res.Contract
	}
	if err != nil {
		vapi.Assert("renter-renew.honest-host-succeeds", !honest || sg.failFund || pool.fail)
		if len(sg.reserved) == 0 {
			vapi.Reach("unfunded")
			return
		}
		vapi.Reach("failed-released")
		vapi.Assert("renter-renew.failure-releases-every-input", sg.allReleased())
		return
	}
	vapi.Reach("renewed")
	vapi.Assert("renter-renew.success-releases-nothing", sg.noneReleased())
	vapi.Assert("renter-renew.id", got.ID == cid.V2RenewalID())
	sigHash := cs.ContractSigHash(agreed)
	g := got.Revision
	g.HostSignature, g.RenterSignature = types.Signature{}, types.Signature{}
	a := agreed
	a.HostSignature, a.RenterSignature = types.Signature{}, types.Signature{}
	vapi.Assert("renter-renew.contract-is-the-agreed-one", g == a)
	vapi.Assert("renter-renew.host-signature-verifies", hostKey.PublicKey().VerifyHash(sigHash, got.Revision.HostSignature))
	vapi.Assert("renter-renew.renter-signature-verifies", renterKey.PublicKey().VerifyHash(sigHash, got.Revision.RenterSignature))
}
