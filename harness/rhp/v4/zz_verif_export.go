package rhp

// Verification-only export shim (overlay file; never part of the repository):
// gives the external harness package access to the unexported RPC handlers.

import (
	"errors"
	"net"

	"go.uber.org/zap"
)

// VerifHandle runs one RPC handler on stream.
func (s *Server) VerifHandle(rpc string, stream net.Conn) (err error) {
	// handleHostStream recovers handler panics and drops the stream; mirror that
	defer func() {
		if r := recover(); r != nil {
			err = errVerifPanic
		}
	}()
	return s.verifHandle(rpc, stream)
}

var errVerifPanic = errors.New("panic in RPC handler (recovered by handleHostStream)")

func (s *Server) verifHandle(rpc string, stream net.Conn) error {
	switch rpc {
	case "free":
		return s.handleRPCFreeSectors(stream)
	case "append":
		return s.handleRPCAppendSectors(stream)
	case "fund":
		return s.handleRPCFundAccounts(stream)
	case "replenish":
		return s.handleRPCReplenishAccounts(stream)
	case "replenish-pools":
		return s.handleRPCReplenishPools(stream)
	case "roots":
		return s.handleRPCSectorRoots(stream)
	case "latest":
		return s.handleRPCLatestRevision(stream)
	case "attach":
		return s.handleRPCAttachPools(stream)
	case "detach":
		return s.handleRPCDetachPools(stream)
	case "write":
		return s.handleRPCWriteSector(stream)
	case "verify":
		return s.handleRPCVerifySector(stream)
	case "read":
		return s.handleRPCReadSector(stream, zap.NewNop())
	case "balance":
		return s.handleRPCAccountBalance(stream)
	case "form":
		return s.handleRPCFormContract(stream)
	case "renew":
		return s.handleRPCRenewContract(stream)
	case "refresh":
		return s.handleRPCRefreshContract(stream, false)
	case "refresh-partial":
		return s.handleRPCRefreshContract(stream, true)
	}
	panic("unknown rpc " + rpc)
}
