package rhp_test

// C10 (sector data): RPCReadSector against a host that answers with genuine
// data and a genuine range proof for some range, and corrupts one thing.
// The sector is 4 leaves of data followed by zeros; its tree (65536 leaves) is
// built from the four leaf hashes and the roots of all-zero subtrees.

import (
	"bytes"
	"context"
	"math/bits"
	"time"

	"go.sia.tech/core/blake2b"
	proto4 "go.sia.tech/core/rhp/v4"
	"go.sia.tech/core/types"
	"go.sia.tech/coreutils/internal/vapi"
	rhp4 "go.sia.tech/coreutils/rhp/v4"
)

type sectorModel struct {
	data  [256]byte // the first four leaves; the rest of the sector is zero
	leafH [4]types.Hash256
	zero  [17]types.Hash256 // zero[h]: root of an all-zero subtree of 2^h leaves
}

func newSectorModel() *sectorModel {
	m := &sectorModel{}
	for i := range m.data {
		m.data[i] = byte(7*i + 1)
	}
	for k := 0; k < 4; k++ {
		m.leafH[k] = blake2b.SumLeaf((*[64]byte)(m.data[64*k : 64*k+64]))
	}
	var z [64]byte
	m.zero[0] = blake2b.SumLeaf(&z)
	for h := 1; h <= 16; h++ {
		m.zero[h] = blake2b.SumPair(m.zero[h-1], m.zero[h-1])
	}
	return m
}

// subtree returns the root of leaves [i, i+size), size a power of two, aligned.
func (m *sectorModel) subtree(i, size uint64) types.Hash256 {
	if i >= 4 {
		return m.zero[bits.TrailingZeros64(size)]
	}
	if size == 1 {
		return m.leafH[i]
	}
	return blake2b.SumPair(m.subtree(i, size/2), m.subtree(i+size/2, size/2))
}

func (m *sectorModel) root() types.Hash256 { return m.subtree(0, 65536) }

func vNextSubtreeSize(start, end uint64) uint64 {
	ideal := bits.TrailingZeros64(start)
	maxSize := bits.Len64(end-start) - 1
	if ideal > maxSize {
		return 1 << maxSize
	}
	return 1 << ideal
}

// proof is the range proof for leaves [start, end): roots of the maximal
// aligned subtrees left of start, then right of end.
func (m *sectorModel) proof(start, end uint64) (p []types.Hash256) {
	add := func(i, j uint64) {
		for i < j {
			sz := vNextSubtreeSize(i, j)
			p = append(p, m.subtree(i, sz))
			i += sz
		}
	}
	add(0, start)
	add(end, 65536)
	return
}

// VerifH_C10_read: success means the bytes handed to the caller are exactly
// the requested range of the sector with the requested root.
//
//verif:harness prop=C10 tier=quick replay=native go=skip require=ok,rejected bounds="sector = 4 data leaves + zeros; requested range: any leaf-aligned range within the first 4 leaves; the host answers with genuine data and proof for the requested range or for a shorter/longer one, or corrupts one data byte or one proof hash, or cuts the data short"
func VerifH_C10_read() {
	w := newClientWorld(1)
	m := newSectorModel()
	root := m.root()
	acctKey := keyFromByte(3)
	token := proto4.AccountToken{HostKey: w.hostKey.PublicKey(), Account: proto4.Account(acctKey.PublicKey()), ValidUntil: time.Now().Add(5 * time.Minute)}
	token.Signature = acctKey.SignHash(token.SigHash())
	startLeaf := uint64(vapi.Int("start_leaf", 0, 3))
	nLeaves := uint64(vapi.Int("leaves", 1, 4-int(startLeaf)))
	offset, length := startLeaf*64, nLeaves*64

	corrupt := vapi.Int("corrupt", 0, 5)
	w.t.conn.respond = func(c *scriptConn) []byte {
		if c.round > 0 {
			return nil
		}
		ansLeaves := nLeaves
		switch corrupt {
		case 1: // a genuine answer for a shorter range
			if nLeaves == 1 {
				vapi.Assume(false)
			}
			ansLeaves = uint64(vapi.Int("answer_leaves", 1, int(nLeaves)-1))
		case 2: // a genuine answer for a longer range
			if startLeaf+nLeaves >= 4 {
				vapi.Assume(false)
			}
			ansLeaves = uint64(vapi.Int("answer_leaves", int(nLeaves)+1, 4-int(startLeaf)))
		}
		data := append([]byte(nil), m.data[offset:offset+ansLeaves*64]...)
		resp := proto4.RPCReadSectorResponse{
			Proof:      m.proof(startLeaf, startLeaf+ansLeaves),
			DataLength: uint64(len(data)),
		}
		switch corrupt {
		case 3: // one data byte differs
			// (leaf hashes are idealised: where in the leaf the byte sits is immaterial)
			k := 64*vapi.Int("which_leaf", 0, int(ansLeaves)-1) + 31*vapi.Int("which_pos", 0, 2)
			x := vapi.U8("byte")
			vapi.Assume(x != data[k])
			data[k] = x
		case 4: // one proof hash differs
			k := vapi.Int("which_hash", 0, len(resp.Proof)-1)
			resp.Proof[k] = otherHash("node", resp.Proof[k])
		case 5: // the stream ends early
			data = data[:len(data)-1]
		}
		return append(encResp(&resp), data...)
	}
	var buf bytes.Buffer
	res, err := rhp4.RPCReadSector(context.Background(), w.t, w.prices, token, &buf, root, offset, length)
	if err != nil {
		vapi.Reach("rejected")
		vapi.Assert("read.honest-accepted", corrupt != 0)
		return
	}
	vapi.Reach("ok")
	vapi.Assert("read.bound", corrupt == 0)
	vapi.Assert("read.data-is-the-requested-range", bytes.Equal(buf.Bytes(), m.data[offset:offset+length]))
	vapi.Assert("read.usage", res.Usage == w.prices.RPCReadSectorCost(length))
}

// VerifH_C10_verify: RPCVerifySector picks a random leaf; success means the
// host produced that leaf of the sector with the requested root.
//
//verif:harness prop=C10 tier=quick replay=native go=skip require=ok,rejected nowitness=ok,rejected bounds="leaf index chosen by the client (arbitrary, assumed among the 4 data leaves); the host answers with the genuine leaf and proof, another leaf's, an altered leaf byte or an altered proof hash"
func VerifH_C10_verify() {
	w := newClientWorld(1)
	m := newSectorModel()
	root := m.root()
	acctKey := keyFromByte(3)
	token := proto4.AccountToken{HostKey: w.hostKey.PublicKey(), Account: proto4.Account(acctKey.PublicKey()), ValidUntil: time.Now().Add(5 * time.Minute)}
	token.Signature = acctKey.SignHash(token.SigHash())
	corrupt := vapi.Int("corrupt", 0, 3)
	w.t.conn.respond = func(c *scriptConn) []byte {
		if c.round > 0 {
			return nil
		}
		var req proto4.RPCVerifySectorRequest
		if err := proto4.ReadRequest(bytes.NewReader(clientWritten(c)), &req); err != nil {
			return nil
		}
		vapi.Assume(req.LeafIndex < 4) // bound: the random index falls on a data leaf
		idx := vapi.Concrete(req.LeafIndex)
		ans := idx
		if corrupt == 1 { // the proof and leaf of another index
			ans = uint64(vapi.Int("other_leaf", 0, 3))
			vapi.Assume(ans != idx)
		}
		resp := proto4.RPCVerifySectorResponse{Proof: m.proof(ans, ans+1)}
		copy(resp.Leaf[:], m.data[64*ans:64*ans+64])
		switch corrupt {
		case 2:
			k := 31 * vapi.Int("which_pos", 0, 2)
			x := vapi.U8("byte")
			vapi.Assume(x != resp.Leaf[k])
			resp.Leaf[k] = x
		case 3:
			k := vapi.Int("which_hash", 0, len(resp.Proof)-1)
			resp.Proof[k] = otherHash("node", resp.Proof[k])
		}
		return encResp(&resp)
	}
	res, err := rhp4.RPCVerifySector(context.Background(), w.t, w.prices, token, root)
	if err != nil {
		vapi.Reach("rejected")
		vapi.Assert("verify.honest-accepted", corrupt != 0)
		return
	}
	vapi.Reach("ok")
	vapi.Assert("verify.bound", corrupt == 0)
	vapi.Assert("verify.usage", res.Usage == w.prices.RPCVerifySectorCost())
}

// VerifH_C10_write: RPCWriteSector succeeds only if the host acknowledges the
// root of exactly the bytes that were sent (zero-padded to a sector).
//
//verif:harness prop=C10 tier=quick replay=native go=sched preempt=0 require=ok,rejected bounds="1..4 leaves of data (one byte symbolic); the host acknowledges the genuine root, the root of other data, or an arbitrary hash"
func VerifH_C10_write() {
	w := newClientWorld(1)
	m := newSectorModel()
	acctKey := keyFromByte(3)
	token := proto4.AccountToken{HostKey: w.hostKey.PublicKey(), Account: proto4.Account(acctKey.PublicKey()), ValidUntil: time.Now().Add(5 * time.Minute)}
	token.Signature = acctKey.SignHash(token.SigHash())
	n := vapi.Int("leaves", 1, 4)
	for k := 64 * n; k < 256; k++ {
		m.data[k] = 0
	}
	m.data[5] = vapi.U8("byte")
	for k := 0; k < 4; k++ {
		var z [64]byte
		copy(z[:], m.data[64*k:64*k+64])
		m.leafH[k] = blake2b.SumLeaf(&z)
	}
	want := m.root()
	corrupt := vapi.Int("corrupt", 0, 2)
	w.t.conn.respond = func(c *scriptConn) []byte {
		if c.round > 0 {
			return nil
		}
		resp := proto4.RPCWriteSectorResponse{Root: want}
		switch corrupt {
		case 1:
			resp.Root = otherHash("root", want)
		case 2: // the root of the same data with the padding dropped
			resp.Root = m.subtree(0, 4)
		}
		return encResp(&resp)
	}
	res, err := rhp4.RPCWriteSector(context.Background(), w.t, w.prices, token, bytes.NewReader(m.data[:64*n]), uint64(64*n))
	if err != nil {
		vapi.Reach("rejected")
		vapi.Assert("write.honest-accepted", corrupt != 0)
		return
	}
	vapi.Reach("ok")
	vapi.Assert("write.bound", corrupt == 0)
	vapi.Assert("write.root-is-the-datas-root", res.Root == want)
	vapi.Assert("write.usage", res.Usage == w.prices.RPCWriteSectorCost(uint64(64*n)))
	// the bytes that went out are the caller's bytes
	out := clientWritten(w.t.conn)
	vapi.Assert("write.sent-the-data", len(out) >= 64*n && bytes.Equal(out[len(out)-64*n:], m.data[:64*n]))
}
