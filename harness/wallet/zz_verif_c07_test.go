package wallet

import (
	"time"

	"go.sia.tech/core/consensus"
	"go.sia.tech/core/types"
	"go.sia.tech/coreutils/internal/vapi"
	"go.uber.org/zap"
)

// ---- environment stubs -------------------------------------------------------

type vStore struct {
	tip   types.ChainIndex
	utxos []types.SiacoinElement
}

func (s *vStore) Tip() (types.ChainIndex, error) { return s.tip, nil }
func (s *vStore) UnspentSiacoinElements() (types.ChainIndex, []types.SiacoinElement, error) {
	out := make([]types.SiacoinElement, len(s.utxos))
	for i := range s.utxos {
		out[i] = s.utxos[i].Copy()
	}
	return s.tip, out, nil
}
func (s *vStore) WalletEvent(id types.Hash256) (Event, error)      { return Event{}, nil }
func (s *vStore) WalletEvents(offset, limit int) ([]Event, error)  { return nil, nil }
func (s *vStore) WalletEventCount() (uint64, error)                { return 0, nil }
func (s *vStore) AddBroadcastedSet(BroadcastedSet) error           { return nil }
func (s *vStore) BroadcastedSets() ([]BroadcastedSet, error)       { return nil, nil }
func (s *vStore) RemoveBroadcastedSet(BroadcastedSet) error        { return nil }

type vCM struct {
	tip   types.ChainIndex
	v1    []types.Transaction
	v2    []types.V2Transaction
	wmu   *SingleAddressWallet // to check the wallet's lock is held during calls
	calls int
	net   *consensus.Network
	added []types.V2Transaction
}

func (c *vCM) AddV2PoolTransactions(basis types.ChainIndex, txns []types.V2Transaction) (bool, error) {
	c.added = append(c.added, txns...)
	return false, nil
}
func (c *vCM) TipState() consensus.State                        { return consensus.State{Index: c.tip, Network: c.net} }
func (c *vCM) BestIndex(height uint64) (types.ChainIndex, bool) { return c.tip, true }
func (c *vCM) PoolTransactions() []types.Transaction            { c.calls++; return c.v1 }
func (c *vCM) RecommendedFee() types.Currency                   { return types.NewCurrency64(1) }
func (c *vCM) V2PoolTransactions() []types.V2Transaction        { c.calls++; return c.v2 }
func (c *vCM) UpdateV2TransactionSet(txns []types.V2Transaction, from, to types.ChainIndex) ([]types.V2Transaction, error) {
	return txns, nil
}
func (c *vCM) V2TransactionSet(basis types.ChainIndex, txn types.V2Transaction) (types.ChainIndex, []types.V2Transaction, error) {
	return c.tip, []types.V2Transaction{txn}, nil
}
func (c *vCM) OnReorg(func(types.ChainIndex)) func() { return func() {} }

// lazyInt is a symbolic int in [0,max] that is only split when the code
// actually needs its value.
func lazyInt(name string, max uint64) int {
	v := vapi.UBits(name, 3)
	vapi.Assume(v <= max)
	return int(v)
}

// ---- wallet world ------------------------------------------------------------

type walletWorld struct {
	w     *SingleAddressWallet
	store *vStore
	cm    *vCM
	// per stored output: reference knowledge
	value    []uint64
	immature []bool
	locked   []bool
	poolV1   []bool // spent by a pooled v1 transaction
	poolV2   []bool // spent by a pooled v2 transaction
	// an unconfirmed output paying the wallet, created by a pooled v2 transaction
	hasUnconf    bool
	unconfID     types.SiacoinOutputID
	unconfValue  uint64
	unconfLocked bool
	unconfSpent  bool // already spent by another pooled v2 transaction
}

func utxoID(k int) (id types.SiacoinOutputID) {
	id[0], id[31] = byte(k+1), 0x77
	return
}

// wwOneUnconfValue restricts the unconfirmed output to one value (harnesses
// whose subject does not depend on it).
var wwOneUnconfValue bool

// newWalletWorld: a wallet holding n outputs of symbolic value, each mature or
// not, reserved or not, spent by a pooled v1/v2 transaction or not; options symbolic.
func newWalletWorld(n int) *walletWorld {
	priv := types.NewPrivateKeyFromSeed(make([]byte, 32))
	addr := types.StandardUnlockHash(priv.PublicKey())
	tip := types.ChainIndex{Height: 100, ID: types.BlockID{9}}
	ww := &walletWorld{store: &vStore{tip: tip}, cm: &vCM{tip: tip}}
	cfg := config{
		DefragThreshold:     lazyInt("DefragThreshold", 4),
		MaxInputsForDefrag:  lazyInt("MaxInputsForDefrag", 5),
		MaxDefragUTXOs:      lazyInt("MaxDefragUTXOs", 4),
		ReservationDuration: time.Hour,
		Log:                 zap.NewNop(),
	}
	w := &SingleAddressWallet{priv: priv, addr: addr, cm: ww.cm, store: ww.store, cfg: cfg, log: zap.NewNop(),
		locked: make(map[types.SiacoinOutputID]time.Time)}
	ww.w = w
	for k := 0; k < n; k++ {
		v := vapi.UBits("value", 32)
		vapi.Assume(v >= 1)
		sce := types.SiacoinElement{ID: utxoID(k), StateElement: types.StateElement{LeafIndex: uint64(k)},
			SiacoinOutput: types.SiacoinOutput{Value: types.NewCurrency64(v), Address: addr}, MaturityHeight: 50}
		imm := vapi.Bool("immature")
		if imm {
			sce.MaturityHeight = 150
		}
		ww.store.utxos = append(ww.store.utxos, sce)
		ww.value = append(ww.value, v)
		ww.immature = append(ww.immature, imm)
		lk := false
		p1, p2 := false, false
		switch vapi.Int("state", 0, 4) {
		case 4:
			// a reservation whose period is over: the output is free again
			w.locked[sce.ID] = time.Now().Add(-time.Minute)
		case 1:
			lk = true
			w.locked[sce.ID] = time.Now().Add(time.Hour)
		case 2:
			p1 = true
			ww.cm.v1 = append(ww.cm.v1, types.Transaction{SiacoinInputs: []types.SiacoinInput{{ParentID: sce.ID, UnlockConditions: types.StandardUnlockConditions(priv.PublicKey())}}})
		case 3:
			p2 = true
			ww.cm.v2 = append(ww.cm.v2, types.V2Transaction{SiacoinInputs: []types.V2SiacoinInput{{Parent: sce.Copy()}}})
		}
		ww.locked = append(ww.locked, lk)
		ww.poolV1 = append(ww.poolV1, p1)
		ww.poolV2 = append(ww.poolV2, p2)
	}
	if vapi.Bool("unconfirmed-output") {
		ww.hasUnconf = true
		// a few concrete values: the creating transaction's id (a hash of its
		// outputs) must stay concrete
		ww.unconfValue = 1 << 31
		if !wwOneUnconfValue {
			ww.unconfValue = []uint64{1, 77, 1 << 31}[vapi.Int("unconfirmed-value", 0, 2)]
		}
		creator := types.V2Transaction{ArbitraryData: []byte{0x42}, SiacoinOutputs: []types.SiacoinOutput{{Value: types.NewCurrency64(ww.unconfValue), Address: addr}}}
		ww.cm.v2 = append(ww.cm.v2, creator)
		ww.unconfID = creator.EphemeralSiacoinOutput(0).ID
		switch vapi.Int("unconfirmed-state", 0, 3) {
		case 3:
			w.locked[ww.unconfID] = time.Now().Add(-time.Minute)
		case 1:
			ww.unconfLocked = true
			w.locked[ww.unconfID] = time.Now().Add(time.Hour)
		case 2:
			// another pooled transaction already spends it (and its reservation
			// is gone, e.g. after a restart that reloaded the broadcast sets)
			ww.unconfSpent = true
			ww.cm.v2 = append(ww.cm.v2, types.V2Transaction{ArbitraryData: []byte{0x43}, SiacoinInputs: []types.V2SiacoinInput{{Parent: creator.EphemeralSiacoinOutput(0)}}})
		}
	}
	return ww
}

// activeReservations counts the reservations whose period is not over
// (expired entries may or may not have been purged from the map yet).
func activeReservations(w *SingleAddressWallet) (c int) {
	now := time.Now()
	for _, until := range w.locked {
		if now.Before(until) {
			c++
		}
	}
	return
}

func (ww *walletWorld) spendable(k int) bool {
	return !ww.immature[k] && !ww.locked[k] && !ww.poolV1[k] && !ww.poolV2[k]
}

func (ww *walletWorld) indexOf(id types.SiacoinOutputID) int {
	for k := range ww.store.utxos {
		if ww.store.utxos[k].ID == id {
			return k
		}
	}
	return -1
}

// VerifH_C07_fund: one FundV2Transaction (or FundTransaction) call from an
// arbitrary wallet state with arbitrary options and amount.
//
//verif:harness prop=C07 tier=quick replay=native require=funded,refused,nothing bounds="wallet of 1..2 outputs with symbolic values < 2^32, each mature/immature x free/reserved/spent by a pooled v1/spent by a pooled v2 transaction; DefragThreshold 0..4, MaxInputsForDefrag 0..5, MaxDefragUTXOs 0..4; amount symbolic < 2^34; v1 or v2 funding; 0..1 inputs already in the transaction"
func VerifH_C07_fund() { verifFundWallet(2) }

//verif:harness prop=C07 tier=thorough replay=native require=funded,refused,nothing bounds="as VerifH_C07_fund with wallets of 1..3 outputs"
func VerifH_C07_fund3() { verifFundWallet(3) }

func verifFundWallet(maxUtxos int) {
	n := vapi.Int("utxos", 1, maxUtxos)
	ww := newWalletWorld(n)
	w := ww.w
	amount := vapi.UBits("amount", 34)
	var total uint64
	for k := 0; k < n; k++ {
		if ww.spendable(k) {
			total += ww.value[k]
		}
	}
	useUnconfirmed := vapi.Bool("use-unconfirmed")
	if useUnconfirmed && ww.hasUnconf && !ww.unconfLocked && !ww.unconfSpent {
		total += ww.unconfValue
	}
	lockedBefore := activeReservations(w)
	v2 := vapi.Bool("v2")
	pre := vapi.Int("existing-inputs", 0, 1)
	var ids []types.SiacoinOutputID
	var outs []types.SiacoinOutput
	var err error
	if v2 {
		txn := types.V2Transaction{}
		for i := 0; i < pre; i++ {
			txn.SiacoinInputs = append(txn.SiacoinInputs, types.V2SiacoinInput{Parent: types.SiacoinElement{ID: types.SiacoinOutputID{0xee}}})
		}
		var toSign []int
		_, toSign, err = w.FundV2Transaction(&txn, types.NewCurrency64(amount), useUnconfirmed)
		for _, i := range toSign {
			ids = append(ids, txn.SiacoinInputs[i].Parent.ID)
		}
		if err == nil {
			vapi.Assert("fund.tosign-covers-new-inputs", len(toSign) == len(txn.SiacoinInputs)-pre)
		} else {
			vapi.Assert("fail-clean.txn", len(txn.SiacoinInputs) == pre && len(txn.SiacoinOutputs) == 0)
		}
		outs = txn.SiacoinOutputs
	} else {
		txn := types.Transaction{}
		for i := 0; i < pre; i++ {
			txn.SiacoinInputs = append(txn.SiacoinInputs, types.SiacoinInput{ParentID: types.SiacoinOutputID{0xee}})
		}
		var toSign []types.Hash256
		toSign, err = w.FundTransaction(&txn, types.NewCurrency64(amount), useUnconfirmed)
		for _, h := range toSign {
			ids = append(ids, types.SiacoinOutputID(h))
		}
		if err == nil {
			vapi.Assert("fund.tosign-covers-new-inputs", len(toSign) == len(txn.SiacoinInputs)-pre)
			for i, h := range toSign {
				vapi.Assert("fund.tosign-matches-inputs", txn.SiacoinInputs[pre+i].ParentID == types.SiacoinOutputID(h))
			}
		} else {
			vapi.Assert("fail-clean.txn", len(txn.SiacoinInputs) == pre && len(txn.SiacoinOutputs) == 0)
		}
		outs = txn.SiacoinOutputs
	}
	if err != nil {
		vapi.Reach("refused")
		vapi.Assert("complete.refuses-only-when-short", amount > total)
		vapi.Assert("fail-clean.no-reservation", activeReservations(w) == lockedBefore)
		return
	}
	if amount == 0 {
		vapi.Reach("nothing")
		vapi.Assert("zero.selects-nothing", len(ids) == 0 && len(outs) == 0)
		return
	}
	vapi.Reach("funded")
	vapi.Assert("complete.funds-when-possible", amount <= total)
	// soundness of every selected input
	var sum uint64
	seen := map[int]bool{}
	usedUnconf := false
	for _, id := range ids {
		if ww.hasUnconf && id == ww.unconfID {
			vapi.Assert("select.unconfirmed-only-when-asked", useUnconfirmed)
			vapi.Assert("select.unconfirmed-not-reserved", !ww.unconfLocked)
			vapi.Assert("select.unconfirmed-not-spent-in-pool", !ww.unconfSpent)
			vapi.Assert("select.once", !usedUnconf)
			usedUnconf = true
			sum += ww.unconfValue
			_, isLocked := w.locked[id]
			vapi.Assert("reserve.selected-are-locked", isLocked)
			continue
		}
		k := ww.indexOf(id)
		vapi.Assert("select.owned", k >= 0)
		if k < 0 {
			return
		}
		vapi.Assert("select.once", !seen[k])
		seen[k] = true
		vapi.Assert("select.mature", !ww.immature[k])
		vapi.Assert("select.not-reserved", !ww.locked[k])
		vapi.Assert("select.not-pool-spent", !ww.poolV1[k] && !ww.poolV2[k])
		sum += ww.value[k]
		_, isLocked := w.locked[id]
		vapi.Assert("reserve.selected-are-locked", isLocked)
	}
	vapi.Assert("reserve.exactly-selected", activeReservations(w) == lockedBefore+len(ids))
	// conservation: inputs = amount + change, change paid to the wallet
	vapi.Assert("conserve.enough", sum >= amount)
	if sum > amount {
		vapi.Assert("conserve.change", len(outs) == 1 && outs[0].Address == w.addr && outs[0].Value == types.NewCurrency64(sum-amount))
	} else {
		vapi.Assert("conserve.no-change", len(outs) == 0)
	}
	// defrag bounds
	if len(ids)+pre > w.cfg.MaxInputsForDefrag && !usedUnconf {
		// then nothing beyond the greedy selection was added: removing the smallest selected input must leave too little
		var min uint64 = 1 << 63
		for k := range seen {
			if ww.value[k] < min {
				min = ww.value[k]
			}
		}
		vapi.Assert("defrag.bounded-by-max-inputs", sum-min < amount)
	}
	// a second request cannot reuse the reserved inputs
	txn2 := types.V2Transaction{}
	_, toSign2, err2 := w.FundV2Transaction(&txn2, types.NewCurrency64(1), false)
	if err2 == nil {
		for _, i := range toSign2 {
			k := ww.indexOf(txn2.SiacoinInputs[i].Parent.ID)
			vapi.Assert("disjoint.second-call", k >= 0 && !seen[k])
		}
	}
	// ... nor, when unconfirmed outputs are allowed, the reserved unconfirmed one
	txn3 := types.V2Transaction{}
	_, toSign3, err3 := w.FundV2Transaction(&txn3, types.NewCurrency64(1), true)
	if err3 == nil {
		for _, i := range toSign3 {
			id := txn3.SiacoinInputs[i].Parent.ID
			if ww.hasUnconf && id == ww.unconfID {
				vapi.Assert("disjoint.unconfirmed-second-call", !usedUnconf && !ww.unconfLocked && !ww.unconfSpent)
			} else {
				k := ww.indexOf(id)
				vapi.Assert("disjoint.second-call", k >= 0 && !seen[k])
			}
		}
	}
	// releasing makes them selectable again
	w.ReleaseInputs(nil, []types.V2Transaction{txn2})
}

// VerifH_C07_agree: Balance().Spendable, the sum of SpendableOutputs() and the
// set selectUTXOs may choose from agree in every wallet state.
//
//verif:harness prop=C07 tier=quick replay=native require=agree bounds="wallet of 1..3 outputs as in VerifH_C07_fund"
func VerifH_C07_agree() {
	n := vapi.Int("utxos", 1, 3)
	ww := newWalletWorld(n)
	w := ww.w
	var total uint64
	for k := 0; k < n; k++ {
		if ww.spendable(k) {
			total += ww.value[k]
		}
	}
	bal, err := w.Balance()
	vapi.Assert("agree.balance-no-error", err == nil)
	vapi.Assert("agree.balance-spendable", bal.Spendable == types.NewCurrency64(total))
	outs, err := w.SpendableOutputs()
	vapi.Assert("agree.outputs-no-error", err == nil)
	var sum types.Currency
	for _, o := range outs {
		k := ww.indexOf(o.ID)
		vapi.Assert("agree.outputs-are-spendable", k >= 0 && ww.spendable(k))
		sum = sum.Add(o.SiacoinOutput.Value)
	}
	vapi.Assert("agree.outputs-sum", sum == types.NewCurrency64(total))
	vapi.Reach("agree")
}

// VerifH_C07_redistribute: Redistribute reserves exactly the outputs its
// returned transactions spend, never one output twice, only spendable ones,
// and every returned transaction is balanced and pays the wallet.
//
//verif:harness prop=C07 tier=quick replay=native require=redistributed,refused bounds="wallet of 2..3 mature outputs with symbolic 24-bit values, each free / reserved / spent in the pool; 1 or 11 requested outputs (one or two batches) of a symbolic amount; no fee"
func VerifH_C07_redistribute() {
	priv := types.NewPrivateKeyFromSeed(make([]byte, 32))
	addr := types.StandardUnlockHash(priv.PublicKey())
	tip := types.ChainIndex{Height: 100, ID: types.BlockID{9}}
	store, cm := &vStore{tip: tip}, &vCM{tip: tip}
	w := &SingleAddressWallet{priv: priv, addr: addr, cm: cm, store: store, cfg: config{ReservationDuration: time.Hour, Log: zap.NewNop()}, log: zap.NewNop(),
		locked: make(map[types.SiacoinOutputID]time.Time)}
	n := vapi.Int("outputs", 2, 3)
	usable := map[types.SiacoinOutputID]bool{}
	for k := 0; k < n; k++ {
		v := vapi.UBits("value", 24)
		vapi.Assume(v >= 1)
		sce := types.SiacoinElement{ID: utxoID(k), StateElement: types.StateElement{LeafIndex: uint64(k)},
			SiacoinOutput: types.SiacoinOutput{Value: types.NewCurrency64(v), Address: addr}, MaturityHeight: 50}
		store.utxos = append(store.utxos, sce)
		switch vapi.Int("state", 0, 2) {
		case 0:
			usable[sce.ID] = true
		case 1:
			w.locked[sce.ID] = time.Now().Add(time.Hour)
		case 2:
			cm.v2 = append(cm.v2, types.V2Transaction{SiacoinInputs: []types.V2SiacoinInput{{Parent: sce.Copy()}}})
		}
	}
	want := []int{1, 11}[vapi.Int("requested", 0, 1)]
	amt := vapi.UBits("amount", 20)
	vapi.Assume(amt >= 1)
	lockedBefore := map[types.SiacoinOutputID]bool{}
	for id := range w.locked {
		lockedBefore[id] = true
	}
	_, txns, toSign, err := w.Redistribute(want, types.NewCurrency64(amt), types.ZeroCurrency)
	if err != nil {
		vapi.Reach("refused")
		vapi.Assert("redistribute.fail-reserves-nothing", len(w.locked) == len(lockedBefore))
		return
	}
	if len(txns) > 0 {
		vapi.Reach("redistributed")
	}
	vapi.Assert("redistribute.to-sign-per-transaction", len(toSign) == len(txns))
	used := map[types.SiacoinOutputID]bool{}
	for _, txn := range txns {
		var in, out types.Currency
		for _, sci := range txn.SiacoinInputs {
			id := sci.Parent.ID
			vapi.Assert("redistribute.input-once", !used[id])
			used[id] = true
			vapi.Assert("redistribute.input-spendable", usable[id])
			in = in.Add(sci.Parent.SiacoinOutput.Value)
		}
		for _, o := range txn.SiacoinOutputs {
			vapi.Assert("redistribute.pays-the-wallet", o.Address == w.addr)
			out = out.Add(o.Value)
		}
		vapi.Assert("redistribute.balanced", in == out.Add(txn.MinerFee))
	}
	// reservations: exactly the inputs of the returned transactions are new
	for id := range w.locked {
		if !lockedBefore[id] {
			vapi.Assert("redistribute.reserves-only-what-it-spends", used[id])
		}
	}
	for id := range used {
		_, ok := w.locked[id]
		vapi.Assert("redistribute.reserves-what-it-spends", ok)
	}
	// releasing the returned transactions frees everything again
	w.ReleaseInputs(nil, txns)
	vapi.Assert("redistribute.release-restores", len(w.locked) == len(lockedBefore))
}

// ---- reload of stored broadcast sets, and SplitUTXO against a concurrent funding call ----

type reloadCM struct {
	vCM
	added []BroadcastedSet // what the constructor handed to the pool: (basis, transactions)
}

func (c *reloadCM) AddV2PoolTransactions(basis types.ChainIndex, txns []types.V2Transaction) (bool, error) {
	c.added = append(c.added, BroadcastedSet{Basis: basis, Transactions: txns})
	return false, nil
}

type reloadStore struct {
	vStore
	sets []BroadcastedSet
}

func (s *reloadStore) BroadcastedSets() ([]BroadcastedSet, error) { return s.sets, nil }

type nopSyncer struct{}

func (nopSyncer) BroadcastV2TransactionSet(types.ChainIndex, []types.V2Transaction) error { return nil }

// VerifH_C07_reload: a restarted wallet hands each stored broadcast set that is
// still young enough back to the pool, with the basis the set was stored
// with (its proofs are valid for that index and no other).
//
//verif:harness prop=C07 tier=quick replay=native go=skip require=reloaded bounds="0..2 stored broadcast sets, each with the current or an older basis, each young or older than the rebroadcast period"
func VerifH_C07_reload() {
	tip := types.ChainIndex{Height: 100, ID: types.BlockID{9}}
	old := types.ChainIndex{Height: 97, ID: types.BlockID{7}}
	cm := &reloadCM{vCM: vCM{tip: tip}}
	st := &reloadStore{vStore: vStore{tip: tip}}
	n := vapi.Int("sets", 0, 2)
	var want []BroadcastedSet
	for k := 0; k < n; k++ {
		set := BroadcastedSet{Basis: tip, BroadcastedAt: time.Now().Add(-time.Hour), Transactions: []types.V2Transaction{{ArbitraryData: []byte{byte(k + 1)}}}}
		if vapi.Bool("older-basis") {
			set.Basis = old
		}
		if vapi.Bool("expired") {
			set.BroadcastedAt = time.Now().Add(-100 * time.Hour)
		} else {
			want = append(want, set)
		}
		st.sets = append(st.sets, set)
	}
	w, err := NewSingleAddressWallet(types.NewPrivateKeyFromSeed(make([]byte, 32)), cm, st, nopSyncer{})
	vapi.Assert("reload.constructed", err == nil && w != nil)
	vapi.Assert("reload.exactly-the-young-sets", len(cm.added) == len(want))
	for k := range want {
		if k < len(cm.added) {
			vapi.Assert("reload.with-the-sets-own-basis", cm.added[k].Basis == want[k].Basis)
			vapi.Assert("reload.the-sets-own-transactions", len(cm.added[k].Transactions) == 1 && cm.added[k].Transactions[0].ID() == want[k].Transactions[0].ID())
		}
	}
	vapi.Reach("reloaded")
}

// VerifH_C07_split: one SplitUTXO call from an arbitrary wallet state: the
// split spends one spendable output of the wallet, its parts plus the fee are
// exactly that output's value, every part is at least the minimum, the input
// is reserved and exactly this transaction is submitted; a refusal or a
// "nothing to do" reserves and submits nothing.
//
//verif:harness prop=C07 tier=quick replay=native require=split,refused,nothing bounds="wallet of 2 outputs as in VerifH_C07_fund (incl. expired reservations and an unconfirmed output of 2^31); 2..3 requested parts; symbolic 16-bit minimum; fee 2000"
func VerifH_C07_split() { verifSplit(false) }

//verif:harness prop=C07 tier=thorough replay=native require=split,refused,nothing bounds="as VerifH_C07_split with wallets of 1..2 outputs, an unconfirmed output of 1, 77 or 2^31, and 2..4 requested parts"
func VerifH_C07_split4() { verifSplit(true) }

func verifSplit(deep bool) {
	wwOneUnconfValue = !deep
	nu, maxParts := 2, 3
	if deep {
		nu, maxParts = vapi.Int("utxos", 1, 2), 4
	}
	ww := newWalletWorld(nu)
	ww.cm.net = &consensus.Network{}
	w := ww.w
	w.syncer = nopSyncer{}
	n := vapi.Int("parts", 2, maxParts)
	min := vapi.UBits("min", 16)
	reservedBefore := activeReservations(w)
	reserved := func() int { return activeReservations(w) }
	txn, err := w.SplitUTXO(n, types.NewCurrency64(min))
	if err != nil {
		vapi.Reach("refused")
		vapi.Assert("split.refused-reserves-nothing", reserved() == reservedBefore)
		vapi.Assert("split.refused-submits-nothing", len(ww.cm.added) == 0)
		return
	}
	above := 0
	for k := range ww.value {
		if ww.spendable(k) && ww.value[k] >= min {
			above++
		}
	}
	if ww.hasUnconf && !ww.unconfLocked && !ww.unconfSpent && ww.unconfValue >= min {
		above++
	}
	if len(txn.SiacoinInputs) == 0 {
		vapi.Reach("nothing")
		vapi.Assert("split.nothing-only-if-enough", above >= n)
		vapi.Assert("split.nothing-reserves-nothing", reserved() == reservedBefore)
		vapi.Assert("split.nothing-submits-nothing", len(ww.cm.added) == 0)
		return
	}
	vapi.Reach("split")
	vapi.Assert("split.one-input", len(txn.SiacoinInputs) == 1)
	in := txn.SiacoinInputs[0].Parent
	if k := ww.indexOf(in.ID); k >= 0 {
		vapi.Assert("split.input-spendable", ww.spendable(k))
		vapi.Assert("split.input-value", in.SiacoinOutput.Value == types.NewCurrency64(ww.value[k]))
	} else {
		vapi.Assert("split.input-owned", ww.hasUnconf && in.ID == ww.unconfID && !ww.unconfLocked && !ww.unconfSpent)
	}
	sum := txn.MinerFee
	for _, sco := range txn.SiacoinOutputs {
		sum = sum.Add(sco.Value)
		vapi.Assert("split.part-at-least-minimum", sco.Value.Cmp(types.NewCurrency64(min)) >= 0)
		vapi.Assert("split.part-paid-to-wallet", sco.Address == w.addr)
	}
	vapi.Assert("split.conserves-value", sum == in.SiacoinOutput.Value)
	vapi.Assert("split.part-count", len(txn.SiacoinOutputs) == n-above+1)
	vapi.Assert("split.input-reserved", time.Now().Before(w.locked[in.ID]) && reserved() == reservedBefore+1)
	vapi.Assert("split.submitted", len(ww.cm.added) == 1 && ww.cm.added[0].ID() == txn.ID())
}

type splitCM struct {
	vCM
}

func (c *splitCM) AddV2PoolTransactions(basis types.ChainIndex, txns []types.V2Transaction) (bool, error) {
	vapi.Yield() // validation and relay take time
	c.v2 = append(c.v2, txns...)
	return false, nil
}
func (c *splitCM) TipState() consensus.State {
	return consensus.State{Index: c.tip, Network: &consensus.Network{}}
}

// VerifH_C07_split_race: SplitUTXO and a funding call at the same time never
// hand out the same output.
//
//verif:harness prop=C07 tier=quick replay=interp go=sched preempt=2 require=split bounds="wallet of 2 mature outputs with symbolic values; SplitUTXO(2, min) concurrent with FundV2Transaction; every interleaving at the wallet's lock, the pool submission and the store within ≤2 delays"
func VerifH_C07_split_race() {
	priv := types.NewPrivateKeyFromSeed(make([]byte, 32))
	addr := types.StandardUnlockHash(priv.PublicKey())
	tip := types.ChainIndex{Height: 100, ID: types.BlockID{9}}
	store, cm := &vStore{tip: tip}, &splitCM{vCM: vCM{tip: tip}}
	w := &SingleAddressWallet{priv: priv, addr: addr, cm: cm, store: store, syncer: nopSyncer{},
		cfg: config{ReservationDuration: time.Hour, DefragThreshold: 30, MaxInputsForDefrag: 30, MaxDefragUTXOs: 10, Log: zap.NewNop()}, log: zap.NewNop(),
		locked: make(map[types.SiacoinOutputID]time.Time)}
	for k := 0; k < 2; k++ {
		v := 100000 + vapi.UBits("value", 16)
		store.utxos = append(store.utxos, types.SiacoinElement{ID: utxoID(k), StateElement: types.StateElement{LeafIndex: uint64(k)},
			SiacoinOutput: types.SiacoinOutput{Value: types.NewCurrency64(v), Address: addr}, MaturityHeight: 50})
	}
	var splitIn types.SiacoinOutputID
	splitDone, splitOK := false, false
	go func() {
		// both outputs are above the minimum: ask for three so that one is split
		txn, err := w.SplitUTXO(3, types.NewCurrency64(1000))
		splitDone = true
		if err == nil && len(txn.SiacoinInputs) == 1 {
			splitOK = true
			splitIn = txn.SiacoinInputs[0].Parent.ID
		}
	}()
	vapi.Yield()
	var fund types.V2Transaction
	_, toSign, ferr := w.FundV2Transaction(&fund, types.NewCurrency64(5000), false)
	left := vapi.WaitIdle()
	vapi.Assert("split.no-goroutine-left", left == 0 && splitDone)
	if splitOK {
		vapi.Reach("split")
		if ferr == nil {
			for _, i := range toSign {
				vapi.Assert("split.output-not-handed-out-twice", fund.SiacoinInputs[i].Parent.ID != splitIn)
			}
		}
	}
}
