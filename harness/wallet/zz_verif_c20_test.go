package wallet

import (
	"bytes"
	"encoding/binary"
	"strings"

	"go.sia.tech/core/types"

	"go.sia.tech/coreutils/internal/vapi"
)

func verifEntropy(name string) (e [16]byte) {
	binary.BigEndian.PutUint64(e[:8], vapi.U64(name+".hi"))
	binary.BigEndian.PutUint64(e[8:], vapi.U64(name+".lo"))
	return
}

// VerifH_C20_roundtrip: for all 2^128 entropies decode(encode(e)) == e.
//
//verif:harness prop=C20 tier=quick require=roundtrip bounds="all 2^128 entropies"
func VerifH_C20_roundtrip() {
	e := verifEntropy("e")
	phrase := encodeBIP39Phrase(&e)
	var got [16]byte
	err := decodeBIP39Phrase(&got, phrase)
	vapi.Assert("roundtrip.noerror", err == nil)
	vapi.Assert("roundtrip.entropy", got == e)
	vapi.Reach("roundtrip")
}

// VerifH_C20_iff: for all 2048^12 word tuples, decode succeeds iff the checksum
// nibble matches; then the entropy is the reference packing and re-encoding
// yields the same phrase.
//
//verif:harness prop=C20 tier=quick require=accepted,rejected nowitness=accepted bounds="all 2048^12 word tuples; SHA-256 uninterpreted (so the 'accepted' witness, whose checksum nibble the solver chooses, is not replayable natively)"
func VerifH_C20_iff() {
	var w [12]uint64
	words := make([]string, 12)
	for i := range w {
		w[i] = vapi.U64("w")
		vapi.Assume(w[i] < 2048)
		words[i] = bip39EnglishWordList[w[i]]
	}
	phrase := strings.Join(words, " ")
	// independent reference packing: 11 bits per word, big endian; the last
	// word carries 7 entropy bits and 4 checksum bits
	var hi, lo uint64
	for _, v := range w[:11] {
		hi = hi<<11 | lo>>53
		lo = lo<<11 | v
	}
	hi = hi<<7 | lo>>57
	lo = lo<<7 | w[11]>>4
	var ref [16]byte
	binary.BigEndian.PutUint64(ref[:8], hi)
	binary.BigEndian.PutUint64(ref[8:], lo)

	var got [16]byte
	err := decodeBIP39Phrase(&got, phrase)
	ok := bip39checksum(&ref) == w[11]&15
	vapi.Assert("iff", (err == nil) == ok)
	if err == nil {
		vapi.Reach("accepted")
		vapi.Assert("iff.entropy", got == ref)
		vapi.Assert("iff.reencode", encodeBIP39Phrase(&got) == phrase)
	} else {
		vapi.Reach("rejected")
	}
}

// VerifH_C20_derive: KeyFromSeed(seed,i) = Ed25519(BLAKE2b(seed || LE64(i)))
// for every seed and every 64-bit index; SeedFromPhrase = BLAKE2b(entropy).
//
//verif:harness prop=C20 tier=quick require=derived bounds="all 2^256 seeds x all 2^64 indices"
func VerifH_C20_derive() {
	seed := vapi.Bytes32("seed")
	idx := vapi.U64("index")
	key := KeyFromSeed(&seed, idx)
	// reference, written independently
	buf := make([]byte, 40)
	copy(buf, seed[:])
	for k := 0; k < 8; k++ {
		buf[32+k] = byte(idx >> (8 * k))
	}
	h := vapi.HashBytes(buf)
	ref := types.NewPrivateKeyFromSeed(h[:])
	vapi.Assert("derive.key", bytes.Equal(key, ref))
	// determinism: a second evaluation agrees
	key2 := KeyFromSeed(&seed, idx)
	vapi.Assert("derive.deterministic", bytes.Equal(key, key2))
	// the seed is not clobbered
	seed2 := seed
	_ = KeyFromSeed(&seed, idx)
	vapi.Assert("derive.seed-intact", seed2 == seed)
	vapi.Reach("derived")
}

// VerifH_C20_seed: SeedFromPhrase(encode(e)) = BLAKE2b(e) for all entropies.
//
//verif:harness prop=C20 tier=quick require=seeded bounds="all 2^128 entropies"
func VerifH_C20_seed() {
	e := verifEntropy("e")
	phrase := encodeBIP39Phrase(&e)
	var seed [32]byte
	err := SeedFromPhrase(&seed, phrase)
	vapi.Assert("seed.noerror", err == nil)
	want := vapi.HashBytes(e[:])
	vapi.Assert("seed.value", seed == want)
	var seed2 [32]byte
	_ = SeedFromPhrase(&seed2, phrase)
	vapi.Assert("seed.deterministic", seed == seed2)
	vapi.Reach("seeded")
}

// VerifH_C20_count: phrases with 0..11 or 13 words from the list are rejected.
//
//verif:harness prop=C20 tier=quick require=rejected bounds="word counts 0..11 and 13, all words"
func VerifH_C20_count() {
	n := vapi.Int("n", 0, 13)
	vapi.Assume(n != 12)
	words := make([]string, n)
	for i := range words {
		w := vapi.U64("w")
		vapi.Assume(w < 2048)
		words[i] = bip39EnglishWordList[w]
	}
	var got [16]byte
	err := decodeBIP39Phrase(&got, strings.Join(words, " "))
	vapi.Assert("count.rejected", err != nil)
	var seed [32]byte
	vapi.Assert("count.seed-rejected", SeedFromPhrase(&seed, strings.Join(words, " ")) != nil)
	vapi.Reach("rejected")
}

// VerifH_C20_fresh: NewSeedPhrase encodes exactly the 16 bytes drawn from the
// random source (so it always decodes, and to those bytes).
//
//verif:harness prop=C20 tier=quick require=fresh bounds="all 2^128 outputs of the random source"
func VerifH_C20_fresh() {
	phrase := NewSeedPhrase()
	var got [16]byte
	err := decodeBIP39Phrase(&got, phrase)
	vapi.Assert("fresh.decodes", err == nil)
	var seed [32]byte
	vapi.Assert("fresh.seed", SeedFromPhrase(&seed, phrase) == nil)
	vapi.Assert("fresh.seed-value", seed == vapi.HashBytes(got[:]))
	vapi.Reach("fresh")
}

// VerifH_C20_reject: a 12-token phrase one of whose tokens is an arbitrary
// printable string of 1..4 bytes that is not in the word list is rejected,
// wherever the token sits and whatever the other eleven words are.
//
//verif:harness prop=C20 tier=quick require=rejected bounds="foreign token of 1..4 printable ASCII bytes at any of the 12 positions; other 11 words arbitrary"
func VerifH_C20_reject() {
	n := vapi.Int("len", 1, 4)
	tok := make([]byte, n)
	for i := range tok {
		tok[i] = vapi.U8("tok")
		vapi.Assume(tok[i] > 0x20 && tok[i] < 0x7f)
	}
	_, inList := wordMap[string(tok)]
	vapi.Assume(!inList)
	pos := vapi.Int("pos", 0, 11)
	words := make([]string, 12)
	for i := range words {
		if i == pos {
			words[i] = string(tok)
			continue
		}
		words[i] = bip39EnglishWordList[vapi.Search("w", 2048)]
	}
	phrase := strings.Join(words, " ")
	var got [16]byte
	err := decodeBIP39Phrase(&got, phrase)
	vapi.Assert("reject.foreign-token", err != nil)
	vapi.Reach("rejected")
}

// VerifH_C20_whitespace: the words of a phrase separated by any run of
// whitespace decode exactly as when separated by single spaces.
//
//verif:harness prop=C20 tier=quick replay=native require=same-accepted,same-rejected nowitness=same-accepted bounds="all 2048^12 word tuples; separator one of: 2 spaces, tab, LF, CRLF, CR, VT, FF, U+0085, U+00A0, U+3000, space+tab"
func VerifH_C20_whitespace() {
	words := make([]string, 12)
	for i := range words {
		k := vapi.UBits("word", 11)
		words[i] = bip39EnglishWordList[k]
	}
	seps := []string{"  ", "\t", "\n", "\r\n", "\r", "\v", "\f", "\u0085", " ", "　", " \t"}
	sep := seps[vapi.Int("separator", 0, len(seps)-1)]
	var canon, got [16]byte
	errCanon := decodeBIP39Phrase(&canon, strings.Join(words, " "))
	errGot := decodeBIP39Phrase(&got, strings.Join(words, sep))
	vapi.Assert("whitespace.same-verdict", (errCanon == nil) == (errGot == nil))
	if errCanon == nil {
		vapi.Reach("same-accepted")
		vapi.Assert("whitespace.same-entropy", got == canon)
	} else {
		vapi.Reach("same-rejected")
	}
}

// VerifH_C20_derive_state: "the same phrase and index always derive the same
// key" also when several derivations run at once: the derivation and the
// phrase codec keep no state in package-level variables (a sequential check
// cannot see a scratch buffer that is filled and wiped again within one call;
// the executor records every write to a package-level variable instead).
//
//verif:harness prop=C20 tier=quick replay=interp require=derived bounds="all seeds, indices and entropies; writes to package-level variables of package wallet during KeyFromSeed, SeedFromPhrase, NewSeedPhrase-style encode/decode"
func VerifH_C20_derive_state() {
	seed := vapi.Bytes32("seed")
	idx := vapi.U64("index")
	e := verifEntropy("e")
	vapi.WatchGlobals("coreutils/wallet")
	_ = KeyFromSeed(&seed, idx)
	vapi.Assert("state.key-derivation-writes-no-shared-state", vapi.WatchedWrites() == "")
	phrase := encodeBIP39Phrase(&e)
	var back [16]byte
	_ = decodeBIP39Phrase(&back, phrase)
	var s2 [32]byte
	_ = SeedFromPhrase(&s2, phrase)
	vapi.Assert("state.phrase-codec-writes-no-shared-state", vapi.WatchedWrites() == "")
	vapi.Reach("derived")
}
