package wallet

import (
	"encoding/binary"
	"strings"

	"go.sia.tech/coreutils/internal/vapi"
)

func verifEntropy(name string) (e [16]byte) {
	binary.BigEndian.PutUint64(e[:8], vapi.U64(name+".hi"))
	binary.BigEndian.PutUint64(e[8:], vapi.U64(name+".lo"))
	return
}

// VerifH_C20_roundtrip: for all 2^128 entropies decode(encode(e)) == e.
//
//verif:harness prop=C20 tier=quick require=roundtrip
func VerifH_C20_roundtrip() {
	e := verifEntropy("e")
	phrase := encodeBIP39Phrase(&e)
	var got [16]byte
	err := decodeBIP39Phrase(&got, phrase)
	vapi.Assert("roundtrip.noerror", err == nil)
	vapi.Assert("roundtrip.entropy", got == e)
	vapi.Reach("roundtrip")
}

// VerifH_C20_iff: for all 2048^12 word tuples, decode succeeds iff the checksum
// nibble matches; then the entropy is the reference packing and re-encoding
// yields the same phrase.
//
//verif:harness prop=C20 tier=quick require=accepted,rejected
func VerifH_C20_iff() {
	var w [12]uint64
	words := make([]string, 12)
	for i := range w {
		w[i] = vapi.U64("w")
		vapi.Assume(w[i] < 2048)
		words[i] = bip39EnglishWordList[w[i]]
	}
	phrase := strings.Join(words, " ")
	// independent reference packing: 11 bits per word, big endian; the last
	// word carries 7 entropy bits and 4 checksum bits
	var hi, lo uint64
	for _, v := range w[:11] {
		hi = hi<<11 | lo>>53
		lo = lo<<11 | v
	}
	hi = hi<<7 | lo>>57
	lo = lo<<7 | w[11]>>4
	var ref [16]byte
	binary.BigEndian.PutUint64(ref[:8], hi)
	binary.BigEndian.PutUint64(ref[8:], lo)

	var got [16]byte
	err := decodeBIP39Phrase(&got, phrase)
	ok := bip39checksum(&ref) == w[11]&15
	vapi.Assert("iff", (err == nil) == ok)
	if err == nil {
		vapi.Reach("accepted")
		vapi.Assert("iff.entropy", got == ref)
		vapi.Assert("iff.reencode", encodeBIP39Phrase(&got) == phrase)
	} else {
		vapi.Reach("rejected")
	}
}
