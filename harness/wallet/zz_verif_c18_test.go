package wallet

// C18 (wallet part): Close returns only after the rebroadcast goroutine has
// stopped touching the store, the chain manager and the syncer; the reorg
// subscription is dropped; nothing deadlocks; for every interleaving (within
// the delay bound) of the constructor's goroutine, reorg notifications,
// debounce timer firings and Close.

import (
	"time"

	"go.sia.tech/core/types"
	"go.sia.tech/coreutils/internal/vapi"
)

type closeWorld struct {
	closed       bool // Close has returned
	lateWork     bool // a store/chain/syncer call from background work after that
	rebroadcasts int
	onReorg      func(types.ChainIndex)
	subscribed   bool
	unsubscribed bool
	sets         int
}

type closeCM struct {
	vCM
	w *closeWorld
}

func (c *closeCM) OnReorg(fn func(types.ChainIndex)) func() {
	c.w.onReorg, c.w.subscribed = fn, true
	return func() { c.w.unsubscribed = true }
}
func (c *closeCM) UpdateV2TransactionSet(txns []types.V2Transaction, from, to types.ChainIndex) ([]types.V2Transaction, error) {
	if c.w.closed {
		c.w.lateWork = true
	}
	return txns, nil
}
func (c *closeCM) AddV2PoolTransactions(basis types.ChainIndex, txns []types.V2Transaction) (bool, error) {
	if c.w.closed {
		c.w.lateWork = true
	}
	return false, nil
}

type closeStore struct {
	vStore
	w *closeWorld
}

func (s *closeStore) BroadcastedSets() ([]BroadcastedSet, error) {
	if s.w.closed {
		s.w.lateWork = true
	}
	if s.w.subscribed { // (the constructor's own call comes before the subscription)
		s.w.rebroadcasts++
	}
	var out []BroadcastedSet
	for k := 0; k < s.w.sets; k++ {
		out = append(out, BroadcastedSet{Basis: s.tip, BroadcastedAt: time.Now(), Transactions: []types.V2Transaction{{ArbitraryData: []byte{byte(k)}}}})
	}
	return out, nil
}

type closeSyncer struct{ w *closeWorld }

func (s closeSyncer) BroadcastV2TransactionSet(index types.ChainIndex, txns []types.V2Transaction) error {
	if s.w.closed {
		s.w.lateWork = true
	}
	return nil
}

// VerifH_C18_wallet_close
//
//verif:harness prop=C18 tier=quick replay=interp go=sched preempt=2 timers=2 require=closed,rebroadcast bounds="0..1 stored broadcast sets; 0..2 reorg notifications concurrent with Close; the debounce timer fires ≤2 times; ≤2 delays"
func VerifH_C18_wallet_close() {
	w := &closeWorld{sets: vapi.Int("sets", 0, 1)}
	tip := types.ChainIndex{Height: 10, ID: types.BlockID{1}}
	cm := &closeCM{vCM: vCM{tip: tip}, w: w}
	st := &closeStore{vStore: vStore{tip: tip}, w: w}
	sw, err := NewSingleAddressWallet(types.GeneratePrivateKey(), cm, st, closeSyncer{w})
	vapi.Assert("wallet.constructed", err == nil && w.subscribed)
	n := vapi.Int("reorgs", 0, 2)
	go func() {
		for k := 0; k < n; k++ {
			w.onReorg(tip) // never blocks: the notification channel has room for one
			vapi.Yield()
		}
	}()
	vapi.Yield()
	err = sw.Close()
	w.closed = true
	vapi.Assert("wallet.close-ok", err == nil)
	// the constructor's goroutine is background work of the wallet: when Close
	// returns it has ended, which shows in its last act, dropping the subscription
	vapi.Assert("wallet.close-waits-for-the-background-goroutine", w.unsubscribed)
	vapi.Reach("closed")
	left := vapi.WaitIdle()
	vapi.Note("blocked", vapi.Blocked())
	vapi.Assert("wallet.close-no-goroutine-left", left == 0)
	vapi.Assert("wallet.close-no-background-work-afterwards", !w.lateWork)
	vapi.Assert("wallet.close-drops-the-subscription", w.unsubscribed)
	if w.rebroadcasts > 0 {
		vapi.Reach("rebroadcast")
	}
}

//verif:harness prop=C18 tier=thorough replay=interp go=sched preempt=4 timers=3 require=closed,rebroadcast bounds="as VerifH_C18_wallet_close with ≤4 delays, the timer firing ≤3 times"
func VerifH_C18_wallet_close_deep() { VerifH_C18_wallet_close() }
