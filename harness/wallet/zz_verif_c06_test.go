package wallet

import (
	"time"

	"go.sia.tech/core/consensus"
	"go.sia.tech/core/types"
	"go.sia.tech/coreutils/chain"
	"go.sia.tech/coreutils/internal/vapi"
)

// Proof updates: core's pre-conditions as panics, effect = tag the proof with
// the state it now refers to (harness/chain carries the same contract).
var (
	c06ApplyTag, c06RevertTag byte
	c06OldLeaves, c06RevLeaves uint64
	c06Updates                 int
)

//verif:replace (go.sia.tech/core/consensus.ApplyUpdate).UpdateElementProof
func stubApplyProof(au consensus.ApplyUpdate, e *types.StateElement) {
	_ = e.Move()
	if e.LeafIndex == types.UnassignedLeafIndex {
		panic("cannot update an ephemeral element")
	}
	c06Updates++
	if e.LeafIndex >= c06OldLeaves {
		return
	}
	e.MerkleProof = []types.Hash256{{c06ApplyTag}}
}

//verif:replace (go.sia.tech/core/consensus.RevertUpdate).UpdateElementProof
func stubRevertProof(ru consensus.RevertUpdate, e *types.StateElement) {
	_ = e.Move()
	if e.LeafIndex == types.UnassignedLeafIndex {
		panic("cannot update an ephemeral element")
	} else if e.LeafIndex >= c06RevLeaves {
		panic("cannot update an element that is not present in the accumulator")
	}
	c06Updates++
	e.MerkleProof = []types.Hash256{{c06RevertTag}}
}

// vTx is a reference wallet store transaction (same semantics as
// testutil.EphemeralWalletStore, which an in-package harness cannot import).
type vTx struct {
	utxos  map[types.SiacoinOutputID]types.SiacoinElement
	events []Event
	// what the wallet handed over in the last call
	created, spent, removed, unspent []types.SiacoinElement
}

func (t *vTx) UpdateWalletSiacoinElementProofs(pu ProofUpdater) error {
	for id, sce := range t.utxos {
		pu.UpdateElementProof(&sce.StateElement)
		t.utxos[id] = sce.Move()
	}
	return nil
}

func (t *vTx) WalletApplyIndex(index types.ChainIndex, created, spent []types.SiacoinElement, events []Event, ts time.Time) error {
	t.created, t.spent = created, spent
	for _, s := range spent {
		if _, ok := t.utxos[s.ID]; !ok {
			panic("store: spent element is not stored")
		}
		delete(t.utxos, s.ID)
	}
	for _, c := range created {
		if _, ok := t.utxos[c.ID]; ok {
			panic("store: created element already stored")
		}
		t.utxos[c.ID] = c.Copy()
	}
	t.events = append(t.events, events...)
	return nil
}

func (t *vTx) WalletRevertIndex(index types.ChainIndex, removed, unspent []types.SiacoinElement, ts time.Time) error {
	t.removed, t.unspent = removed, unspent
	for _, r := range removed {
		delete(t.utxos, r.ID)
	}
	for _, u := range unspent {
		t.utxos[u.ID] = u.Copy()
	}
	kept := t.events[:0]
	for _, e := range t.events {
		if e.Index != index {
			kept = append(kept, e)
		}
	}
	t.events = kept
	return nil
}

func sumUTXOs(m map[types.SiacoinOutputID]types.SiacoinElement) (c types.Currency) {
	for _, e := range m {
		c = c.Add(e.SiacoinOutput.Value)
	}
	return
}

// VerifH_C06_block: one block applied to (and then reverted from) a wallet
// store holding 0..2 outputs: the store is told exactly the wallet's created
// and spent outputs, the events of the block account for exactly the change
// of the wallet's unspent value, proofs are updated under core's
// pre-conditions, and the revert restores outputs and events exactly.
//
//verif:harness prop=C06 tier=quick replay=interp require=applied,reverted bounds="wallet store with 0..2 outputs (symbolic values < 2^40); one block with: a miner payout to the wallet or to somebody else; optionally a v2 transaction spending a stored output (alone or jointly with a foreign input before/after it) and/or paying the wallet, optionally claiming siafunds (owner and claim address each the wallet or somebody else); optionally a resolved v2 contract whose host and/or renter output pays the wallet (symbolic values); an ephemeral output"
func VerifH_C06_block() { verifC06Block(false) }

//verif:harness prop=C06 tier=quick replay=interp require=applied,reverted bounds="wallet store with 0..2 outputs; one block with a miner payout and optionally: a v1 transaction spending a stored output, a resolved v1 contract (valid or missed), the foundation subsidy - each paying the wallet or not, symbolic values"
func VerifH_C06_block_v1() { verifC06Block(true) }

func verifC06Block(v1 bool) {
	priv := types.NewPrivateKeyFromSeed(make([]byte, 32))
	addr := types.StandardUnlockHash(priv.PublicKey())
	other := types.Address{0x99}
	sw := &SingleAddressWallet{priv: priv, addr: addr}
	tx := &vTx{utxos: map[types.SiacoinOutputID]types.SiacoinElement{}}
	pick := func(name string) types.Address {
		if vapi.Bool(name) {
			return addr
		}
		return other
	}
	// ---- stored outputs
	nPre := vapi.Int("stored", 0, 2)
	var stored []types.SiacoinElement
	for k := 0; k < nPre; k++ {
		sce := types.SiacoinElement{ID: utxoID(k), StateElement: types.StateElement{LeafIndex: uint64(k), MerkleProof: []types.Hash256{{0x01}}},
			SiacoinOutput: types.SiacoinOutput{Value: types.NewCurrency64(vapi.UBits("stored-value", 40)), Address: addr}}
		tx.utxos[sce.ID] = sce.Copy()
		stored = append(stored, sce)
	}
	prevIndex := types.ChainIndex{Height: 10, ID: types.BlockID{0x10}}
	tx.events = []Event{{ID: types.Hash256{0xe0}, Index: prevIndex, Type: EventTypeMinerPayout,
		Data: EventPayout{SiacoinElement: types.SiacoinElement{SiacoinOutput: types.SiacoinOutput{Value: types.NewCurrency64(1), Address: addr}}}, Relevant: []types.Address{addr}}}
	preUTXO := map[types.SiacoinOutputID]types.SiacoinElement{}
	for id, e := range tx.utxos {
		preUTXO[id] = e.Copy()
	}
	preSum := sumUTXOs(tx.utxos)
	// ---- the block and its diffs (block <-> diff contract of core)
	b := types.Block{ParentID: prevIndex.ID, Nonce: 7, MinerPayouts: []types.SiacoinOutput{{Value: types.NewCurrency64(vapi.UBits("payout", 40)), Address: pick("miner-is-wallet")}},
		V2: &types.V2BlockData{Height: 11}}
	var sces []consensus.SiacoinElementDiff
	var v2fces []consensus.V2FileContractElementDiff
	leaf := uint64(100)
	newElem := func(id types.SiacoinOutputID, o types.SiacoinOutput, maturity uint64) types.SiacoinElement {
		leaf++
		return types.SiacoinElement{ID: id, StateElement: types.StateElement{LeafIndex: leaf, MerkleProof: []types.Hash256{{0x0b}}}, SiacoinOutput: o, MaturityHeight: maturity}
	}
	if !v1 && vapi.Bool("with-txn") {
		txn := types.V2Transaction{ArbitraryData: []byte{1}}
		foreign := types.SiacoinElement{ID: types.SiacoinOutputID{0xf0}, StateElement: types.StateElement{LeafIndex: 50}, SiacoinOutput: types.SiacoinOutput{Value: types.NewCurrency64(500), Address: other}}
		addForeign := func() {
			txn.SiacoinInputs = append(txn.SiacoinInputs, types.V2SiacoinInput{Parent: foreign.Copy()})
			sces = append(sces, consensus.SiacoinElementDiff{SiacoinElement: foreign.Copy(), Spent: true})
		}
		if nPre > 0 && vapi.Bool("txn-spends-stored") {
			// alone, or jointly funded with somebody else's input before or after it
			joint := vapi.Int("joint-funding", 0, 2)
			if joint == 1 {
				addForeign()
			}
			txn.SiacoinInputs = append(txn.SiacoinInputs, types.V2SiacoinInput{Parent: stored[0].Copy()})
			sces = append(sces, consensus.SiacoinElementDiff{SiacoinElement: stored[0].Copy(), Spent: true})
			if joint == 2 {
				addForeign()
			}
		} else {
			addForeign()
		}
		txn.SiacoinOutputs = []types.SiacoinOutput{{Value: types.NewCurrency64(40), Address: pick("txn-pays-wallet")}, {Value: types.NewCurrency64(7), Address: other}}
		var claim *types.SiacoinElement
		if vapi.Bool("txn-claims-siafunds") {
			// a siafund input: the claim output is created for the claim address,
			// which need not be the owner of the siafunds
			sfe := types.SiafundElement{ID: types.SiafundOutputID{0x5f}, StateElement: types.StateElement{LeafIndex: 70},
				SiafundOutput: types.SiafundOutput{Value: 10, Address: pick("siafunds-are-the-wallets")}}
			txn.SiafundInputs = append(txn.SiafundInputs, types.V2SiafundInput{Parent: sfe, ClaimAddress: pick("claim-pays-wallet")})
			c := newElem(types.SiafundOutputID(sfe.ID).V2ClaimOutputID(), types.SiacoinOutput{Value: types.NewCurrency64(vapi.UBits("claim", 40)), Address: txn.SiafundInputs[0].ClaimAddress}, 155)
			claim = &c
		}
		b.V2.Transactions = append(b.V2.Transactions, txn)
		txid := txn.ID()
		for i, o := range txn.SiacoinOutputs {
			sces = append(sces, consensus.SiacoinElementDiff{SiacoinElement: newElem(txn.SiacoinOutputID(txid, i), o, 11), Created: true})
		}
		if claim != nil {
			sces = append(sces, consensus.SiacoinElementDiff{SiacoinElement: claim.Copy(), Created: true})
		}
	}
	var fces []consensus.FileContractElementDiff
	if v1 && nPre > 1 && vapi.Bool("with-v1-txn") {
		// a v1 transaction spending the second stored output, paying the wallet or not
		uc := types.StandardUnlockConditions(priv.PublicKey())
		v1 := types.Transaction{ArbitraryData: [][]byte{{2}},
			SiacoinInputs:  []types.SiacoinInput{{ParentID: stored[1].ID, UnlockConditions: uc}},
			SiacoinOutputs: []types.SiacoinOutput{{Value: types.NewCurrency64(11), Address: pick("v1-pays-wallet")}}}
		b.Transactions = append(b.Transactions, v1)
		sces = append(sces, consensus.SiacoinElementDiff{SiacoinElement: stored[1].Copy(), Spent: true})
		sces = append(sces, consensus.SiacoinElementDiff{SiacoinElement: newElem(v1.SiacoinOutputID(0), v1.SiacoinOutputs[0], 11), Created: true})
	}
	if v1 && vapi.Bool("with-v1-resolution") {
		// a v1 contract resolved (valid or missed) with one payout to the wallet or not
		fc := types.FileContract{
			ValidProofOutputs:  []types.SiacoinOutput{{Value: types.NewCurrency64(vapi.UBits("valid-out", 40)), Address: pick("valid-pays-wallet")}},
			MissedProofOutputs: []types.SiacoinOutput{{Value: types.NewCurrency64(vapi.UBits("missed-out", 40)), Address: pick("missed-pays-wallet")}}}
		fce := types.FileContractElement{ID: types.FileContractID{0xf1}, StateElement: types.StateElement{LeafIndex: 61}, FileContract: fc}
		valid := vapi.Bool("v1-valid")
		fces = append(fces, consensus.FileContractElementDiff{FileContractElement: fce, Resolved: true, Valid: valid})
		if valid {
			sces = append(sces, consensus.SiacoinElementDiff{SiacoinElement: newElem(fce.ID.ValidOutputID(0), fc.ValidProofOutputs[0], 155), Created: true})
		} else {
			sces = append(sces, consensus.SiacoinElementDiff{SiacoinElement: newElem(fce.ID.MissedOutputID(0), fc.MissedProofOutputs[0], 155), Created: true})
		}
	}
	if !v1 && vapi.Bool("with-ephemeral") {
		e := newElem(types.SiacoinOutputID{0xe9}, types.SiacoinOutput{Value: types.NewCurrency64(3), Address: addr}, 11)
		e.StateElement.LeafIndex = types.UnassignedLeafIndex
		sces = append(sces, consensus.SiacoinElementDiff{SiacoinElement: e, Created: true, Spent: true})
	}
	if !v1 && vapi.Bool("with-resolution") {
		fc := types.V2FileContract{HostOutput: types.SiacoinOutput{Value: types.NewCurrency64(vapi.UBits("host-out", 40)), Address: pick("host-is-wallet")},
			RenterOutput: types.SiacoinOutput{Value: types.NewCurrency64(vapi.UBits("renter-out", 40)), Address: pick("renter-is-wallet")}}
		fce := types.V2FileContractElement{ID: types.FileContractID{0xfc}, StateElement: types.StateElement{LeafIndex: 60}, V2FileContract: fc}
		v2fces = append(v2fces, consensus.V2FileContractElementDiff{V2FileContractElement: fce, Resolution: &types.V2FileContractExpiration{}})
		sces = append(sces, consensus.SiacoinElementDiff{SiacoinElement: newElem(fce.ID.V2RenterOutputID(), fc.RenterOutput, 155), Created: true})
		sces = append(sces, consensus.SiacoinElementDiff{SiacoinElement: newElem(fce.ID.V2HostOutputID(), fc.HostOutput, 155), Created: true})
	}
	bid := b.ID()
	sces = append(sces, consensus.SiacoinElementDiff{SiacoinElement: newElem(bid.MinerOutputID(0), b.MinerPayouts[0], 155), Created: true})
	if v1 && vapi.Bool("with-foundation-subsidy") {
		sces = append(sces, consensus.SiacoinElementDiff{SiacoinElement: newElem(bid.FoundationOutputID(), types.SiacoinOutput{Value: types.NewCurrency64(vapi.UBits("subsidy", 40)), Address: pick("foundation-is-wallet")}, 155), Created: true})
	}
	var cau consensus.ApplyUpdate
	vapi.SetField(&cau, "sces", sces)
	vapi.SetField(&cau, "v2fces", v2fces)
	vapi.SetField(&cau, "fces", fces)
	state := consensus.State{Index: types.ChainIndex{Height: 11, ID: bid}}
	parent := consensus.State{Index: prevIndex}
	c06ApplyTag, c06OldLeaves = 0x0b, 100
	c06Updates = 0
	// ---- apply
	err := sw.UpdateChainState(tx, nil, []chain.ApplyUpdate{{ApplyUpdate: cau, Block: b, State: state}})
	vapi.Assert("apply.no-error", err == nil)
	vapi.Reach("applied")
	// filter: exactly the wallet's non-ephemeral created / spent diffs
	var wantCreated, wantSpent int
	var createdSum, spentSum types.Currency
	for _, d := range sces {
		if d.Created && d.Spent || d.SiacoinElement.SiacoinOutput.Address != addr {
			continue
		}
		if d.Created {
			wantCreated++
			createdSum = createdSum.Add(d.SiacoinElement.SiacoinOutput.Value)
		} else {
			wantSpent++
			spentSum = spentSum.Add(d.SiacoinElement.SiacoinOutput.Value)
		}
	}
	vapi.Assert("filter.created", len(tx.created) == wantCreated)
	vapi.Assert("filter.spent", len(tx.spent) == wantSpent)
	vapi.Assert("ledger.unspent-value", sumUTXOs(tx.utxos).Add(spentSum) == preSum.Add(createdSum))
	// accounting: the block's events explain exactly the change
	var inflow, outflow types.Currency
	for _, e := range tx.events {
		if e.Index == state.Index {
			inflow = inflow.Add(e.SiacoinInflow())
			outflow = outflow.Add(e.SiacoinOutflow())
		}
	}
	vapi.Assert("accounting.events-equal-value-change", inflow.Add(spentSum) == outflow.Add(createdSum))
	// proofs: the outputs stored before were moved to the new state
	for id, e := range tx.utxos {
		if _, was := preUTXO[id]; was {
			vapi.Assert("proofs.apply-moved", len(e.StateElement.MerkleProof) == 1 && e.StateElement.MerkleProof[0][0] == 0x0b)
		}
	}
	// ---- revert the same block
	rsces := append([]consensus.SiacoinElementDiff(nil), sces...)
	for i, j := 0, len(rsces)-1; i < j; i, j = i+1, j-1 {
		rsces[i], rsces[j] = rsces[j], rsces[i]
	}
	var cru consensus.RevertUpdate
	vapi.SetField(&cru, "sces", rsces)
	vapi.SetField(&cru, "v2fces", v2fces)
	vapi.SetField(&cru, "fces", fces)
	c06RevertTag, c06RevLeaves = 0x0a, 100
	err = sw.UpdateChainState(tx, []chain.RevertUpdate{{RevertUpdate: cru, Block: b, State: parent}}, nil)
	vapi.Assert("revert.no-error", err == nil)
	vapi.Reach("reverted")
	vapi.Assert("inverse.utxo-count", len(tx.utxos) == len(preUTXO))
	for id, e := range preUTXO {
		got, ok := tx.utxos[id]
		vapi.Assert("inverse.utxos", ok && got.SiacoinOutput == e.SiacoinOutput && got.StateElement.LeafIndex == e.StateElement.LeafIndex)
		if ok {
			vapi.Assert("proofs.revert-moved", len(got.StateElement.MerkleProof) == 1 && got.StateElement.MerkleProof[0][0] == 0x0a)
		}
	}
	vapi.Assert("inverse.events", len(tx.events) == 1 && tx.events[0].Index == prevIndex)
}
