package testutil

// Verification-only export shim (overlay file; never part of the repository):
// builds the reference EphemeralContractor in a chosen state without a chain
// manager and exposes its state to the harness.

import (
	proto4 "go.sia.tech/core/rhp/v4"
	"go.sia.tech/core/types"
)

// VerifNewContractor returns a contractor at the given tip with no contracts.
func VerifNewContractor(tip types.ChainIndex) *EphemeralContractor {
	return &EphemeralContractor{
		tip:              tip,
		contractElements: make(map[types.FileContractID]types.V2FileContractElement),
		contracts:        make(map[types.FileContractID]types.V2FileContract),
		roots:            make(map[types.FileContractID][]types.Hash256),
		locks:            make(map[types.FileContractID]bool),
		accounts:         make(map[proto4.Account]types.Currency),
		pools:            make(map[proto4.Account]types.Currency),
		attached:         make(map[proto4.Account][]proto4.Account),
		shutdown:         make(chan struct{}),
	}
}

// VerifSetContract installs a contract with its roots.
func (ec *EphemeralContractor) VerifSetContract(id types.FileContractID, fc types.V2FileContract, roots []types.Hash256) {
	ec.contracts[id] = fc
	ec.roots[id] = roots
}

// VerifContract returns the stored revision and roots (no copy: aliasing is what the harness observes).
func (ec *EphemeralContractor) VerifContract(id types.FileContractID) (types.V2FileContract, []types.Hash256, bool) {
	fc, ok := ec.contracts[id]
	return fc, ec.roots[id], ok
}

// VerifLocked reports whether the contract lock is held.
func (ec *EphemeralContractor) VerifLocked(id types.FileContractID) bool { return ec.locks[id] }

// VerifSetAccount / VerifSetPool set balances directly.
func (ec *EphemeralContractor) VerifSetAccount(a proto4.Account, v types.Currency) { ec.accounts[a] = v }
func (ec *EphemeralContractor) VerifSetPool(a proto4.Account, v types.Currency)    { ec.pools[a] = v }

// VerifAccount / VerifPool read balances.
func (ec *EphemeralContractor) VerifAccount(a proto4.Account) types.Currency { return ec.accounts[a] }
func (ec *EphemeralContractor) VerifPool(a proto4.Account) (types.Currency, bool) {
	v, ok := ec.pools[a]
	return v, ok
}

// VerifAttached returns the attachment list of an account.
func (ec *EphemeralContractor) VerifAttached(a proto4.Account) []proto4.Account { return ec.attached[a] }

// VerifContracts returns the number of contracts held.
func (ec *EphemeralContractor) VerifContracts() int { return len(ec.contracts) }

// VerifSetElement installs the state element of a contract.
func (ec *EphemeralContractor) VerifSetElement(id types.FileContractID, fce types.V2FileContractElement) {
	ec.contractElements[id] = fce
}

// VerifHasContract reports whether a contract with this id is held.
func (ec *EphemeralContractor) VerifHasContract(id types.FileContractID) bool {
	_, ok := ec.contracts[id]
	return ok
}
