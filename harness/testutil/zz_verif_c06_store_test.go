package testutil

// C06 (the reference wallet store): WalletApplyIndex / WalletRevertIndex keep
// exactly the events and outputs of applied, not reverted, indices.

import (
	"time"

	"go.sia.tech/core/types"
	"go.sia.tech/coreutils/internal/vapi"
	"go.sia.tech/coreutils/wallet"
)

// VerifH_C06_store
//
//verif:harness prop=C06 tier=quick replay=native require=reverted bounds="two applied indices with 0..3 events and 0..2 created outputs each (the second may spend an output of the first), then the second index reverted"
func VerifH_C06_store() {
	es := NewEphemeralWalletStore()
	i1 := types.ChainIndex{Height: 1, ID: types.BlockID{1}}
	i2 := types.ChainIndex{Height: 2, ID: types.BlockID{2}}
	mk := func(idx types.ChainIndex, n int, base byte) (evs []wallet.Event) {
		for k := 0; k < n; k++ {
			evs = append(evs, wallet.Event{ID: types.Hash256{base, byte(k)}, Index: idx, Type: wallet.EventTypeMinerPayout,
				Data: wallet.EventPayout{SiacoinElement: types.SiacoinElement{SiacoinOutput: types.SiacoinOutput{Value: types.NewCurrency64(uint64(k + 1))}}}})
		}
		return
	}
	mkOut := func(n int, base byte) (out []types.SiacoinElement) {
		for k := 0; k < n; k++ {
			out = append(out, types.SiacoinElement{ID: types.SiacoinOutputID{base, byte(k)}, SiacoinOutput: types.SiacoinOutput{Value: types.NewCurrency64(5)}})
		}
		return
	}
	n1, n2 := vapi.Int("events-1", 0, 3), vapi.Int("events-2", 0, 3)
	o1, o2 := mkOut(vapi.Int("outputs-1", 0, 2), 0xa1), mkOut(vapi.Int("outputs-2", 0, 2), 0xa2)
	var spent []types.SiacoinElement
	if len(o1) > 0 && vapi.Bool("second-spends-an-output-of-the-first") {
		spent = []types.SiacoinElement{o1[0].Copy()}
	}
	err := es.UpdateChainState(func(tx wallet.UpdateTx) error {
		if err := tx.WalletApplyIndex(i1, o1, nil, mk(i1, n1, 0xe1), time.Time{}); err != nil {
			return err
		}
		return tx.WalletApplyIndex(i2, o2, spent, mk(i2, n2, 0xe2), time.Time{})
	})
	vapi.Assert("store.apply-no-error", err == nil)
	cnt, _ := es.WalletEventCount()
	vapi.Assert("store.events-after-apply", cnt == uint64(n1+n2))
	_, utxos, _ := es.UnspentSiacoinElements()
	vapi.Assert("store.outputs-after-apply", len(utxos) == len(o1)+len(o2)-len(spent))
	err = es.UpdateChainState(func(tx wallet.UpdateTx) error {
		return tx.WalletRevertIndex(i2, o2, spent, time.Time{}) // (the index being reverted)
	})
	vapi.Assert("store.revert-no-error", err == nil)
	vapi.Reach("reverted")
	cnt, _ = es.WalletEventCount()
	vapi.Assert("store.only-best-chain-events-remain", cnt == uint64(n1))
	evs, _ := es.WalletEvents(0, 10)
	for _, e := range evs {
		vapi.Assert("store.no-event-of-the-reverted-index", e.Index == i1)
	}
	_, utxos, _ = es.UnspentSiacoinElements()
	vapi.Assert("store.outputs-after-revert", len(utxos) == len(o1))
	for _, u := range utxos {
		vapi.Assert("store.outputs-are-the-firsts", u.ID[0] == 0xa1)
	}
}
