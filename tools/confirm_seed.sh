#!/bin/bash
# confirm_seed.sh <Cxx> <variant>: re-verify a seeded change in its scratch worktree and import it to /verif/seeded.
# (a) clean tree + demo passes, (b) patched tree + demo fails, (c) patched tree passes the full suite without the demo.
set -u
id=$1; v=$2
wt=/tmp/seed/wt-$id; out=/tmp/seed/out-$id/$v
export GOFLAGS=-mod=mod GOPROXY=off GOSUMDB=off GOTOOLCHAIN=local
GO=/opt/veriftools/go1.26.8/bin/go
cd $wt || exit 9
git checkout -q -- . && git clean -fdq
pkgdir=$(python3 -c "import json;print(json.load(open('$out/meta.json'))['demo_pkg_dir'])")
test=$(python3 -c "import json;print(json.load(open('$out/meta.json'))['demo_test'])")
demo=$(ls $out/zz_seed_*_test.go | head -1)
res="{}"
cp $demo $wt/$pkgdir/
a=$($GO test -vet=off -count=1 -run "^$test\$" ./$pkgdir 2>&1 | tail -3); ra=$?
$GO test -vet=off -count=1 -run "^$test\$" ./$pkgdir >/dev/null 2>&1; ra=$?
git apply $out/patch.diff || { echo "$id/$v: patch does not apply"; exit 8; }
$GO test -vet=off -count=1 -run "^$test\$" ./$pkgdir >/dev/null 2>&1; rb=$?
rm -f $wt/$pkgdir/$(basename $demo)
$GO build ./... >/dev/null 2>&1; rbuild=$?
$GO test -vet=off -count=1 ./... >/tmp/seed/suite-$id-$v.log 2>&1; rc=$?
git checkout -q -- . && git clean -fdq
echo "$id/$v clean+demo=$ra patched+demo=$rb build=$rbuild patched-suite=$rc"
if [ $ra -eq 0 ] && [ $rb -ne 0 ] && [ $rbuild -eq 0 ] && [ $rc -eq 0 ]; then
  d=/verif/seeded/$id-$v; mkdir -p $d
  cp $out/patch.diff $d/patch.diff; cp $demo $d/; 
  python3 - <<P
import json
m=json.load(open('$out/meta.json'))
m['confirmed_by_me']={'clean_plus_demo':'pass','patched_plus_demo':'fail','patched_build':'ok','patched_full_suite':'pass (145 tests, go1.26.8 test -vet=off -count=1 ./...)','script':'tools/confirm_seed.sh $id $v'}
json.dump(m,open('$d/meta.json','w'),indent=1)
P
  echo "$id/$v CONFIRMED -> $d"
else
  echo "$id/$v NOT CONFIRMED"
fi
