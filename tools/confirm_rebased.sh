#!/bin/bash
# confirm_rebased.sh <Cxx> <variant>: verify a rebased seeded patch on a scratch worktree of /repo HEAD.
set -u
id=$1; v=$2
export GOFLAGS=-mod=mod GOPROXY=off GOSUMDB=off GOTOOLCHAIN=local
GO=/opt/veriftools/go1.26.8/bin/go
wt=/tmp/seed/rb-$id-$v
git -C /repo worktree add -q --detach $wt HEAD || exit 9
cd $wt
d=/verif/seeded/$id-$v
pkgdir=$(python3 -c "import json;print(json.load(open('$d/meta.json'))['demo_pkg_dir'])")
test=$(python3 -c "import json;print(json.load(open('$d/meta.json'))['demo_test'])")
demo=$(ls $d/zz_seed_*_test.go | head -1)
cp $demo $wt/$pkgdir/
$GO test -vet=off -count=1 -run "^$test\$" ./$pkgdir >/dev/null 2>&1; ra=$?
git apply $d/patch.rebased.diff || { echo "$id/$v rebased patch does not apply"; }
$GO test -vet=off -count=1 -run "^$test\$" ./$pkgdir >/dev/null 2>&1; rb=$?
rm -f $wt/$pkgdir/$(basename $demo)
$GO test -vet=off -count=1 ./... >/tmp/seed/suite-rb-$id-$v.log 2>&1; rc=$?
echo "$id/$v rebased: fixed-tree+demo=$ra patched+demo=$rb patched-suite=$rc"
cd /; git -C /repo worktree remove --force $wt
