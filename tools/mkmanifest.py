#!/usr/bin/env python3
"""Regenerates /verif/MANIFEST.json from tools/claims.json (claimed checks + not-applicable reasons)."""
import json, os, subprocess
V = os.path.dirname(os.path.dirname(os.path.abspath(__file__)))
claims = json.load(open(os.path.join(V, "tools", "claims.json")))
props = [json.loads(l)["id"] for l in open(os.path.join(V, "properties.jsonl"))]
hooks = subprocess.run(["git", "-C", "/repo", "log", "--format=%h %s"], text=True, capture_output=True).stdout.splitlines()
hook_commits = [l.split()[0] for l in hooks if l.split(" ", 1)[1].startswith("verif-hook:")]
m = {
 "version": 1,
 "setup_cmd": "cd /verif/engine && GOFLAGS=-mod=mod GOPROXY=off GOSUMDB=off GOTOOLCHAIN=local /opt/veriftools/go1.26.8/bin/go build -o /verif/bin/gosx ./cmd/gosx",
 "hooks": {
  "guard": "verif",
  "enable": "no source hooks: harnesses and the vapi package are injected as overlay files (go/packages Config.Overlay for the SSA encoder, go test -overlay for native replay); nothing under /repo is built with a tag",
  "baseline_off_cmd": "cd /repo && GOFLAGS=-mod=mod GOPROXY=off GOSUMDB=off GOTOOLCHAIN=local /opt/veriftools/go1.26.8/bin/go test -vet=off -count=1 -timeout 25m ./...",
  "source_commits": hook_commits,
  "add_only": True,
 },
 "engines": [{
  "name": "gosx", "path": "/verif/engine",
  "serves_properties": sorted(claims["checks"].keys()),
  "kind_free_text": "symbolic executor for go/ssa (fork of golang.org/x/tools/go/ssa/interp v0.50.0): path exploration by re-execution with decision prefixes, bit-vector/UF terms, z3 4.8.12 back end (one incremental `z3 -in` per worker); counterexamples replayed against the natively compiled code through go test -overlay",
 }],
 "checks": [],
 "not_applicable": [],
 "notes": claims.get("notes", ""),
}
for pid in props:
    if pid in claims["checks"]:
        c = claims["checks"][pid]
        m["checks"].append({
         "property_id": pid,
         "quick_cmd": "./check %s quick" % pid,
         "thorough_cmd": "./check %s thorough" % pid,
         "evidence_file": "/verif/evidence/%s.json" % pid,
         "replay_cmd_template": "./check replay {path}",
         "engine": "gosx",
         "level_claimed": {"category": "model_checking", "text": c["text"], "design_ref": c.get("design_ref", "DESIGN.md §4 " + pid)},
         "level_note": c["note"],
         "technique": c.get("technique", "bounded symbolic execution of the real code's go/ssa + SMT (z3): every assertion decided as unsat(pc ∧ ¬assert) on every feasible path; counterexamples replayed natively"),
        })
    else:
        m["not_applicable"].append({"property_id": pid, "reason": claims["not_applicable"].get(pid, "no check registered yet: harnesses for this property are not built (engine exists; see DESIGN.md §4)")})
json.dump(m, open(os.path.join(V, "MANIFEST.json"), "w"), indent=1)
print("checks:", [c["property_id"] for c in m["checks"]])
