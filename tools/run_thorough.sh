#!/bin/bash
# runs every thorough tier once, sequentially; log to /verif/.scratch/thorough.log

for p in "$@"; do
  s=$(date +%s)
  ./check $p thorough > /verif/.scratch/thorough-$p.out 2>&1
  rc=$?
  e=$(date +%s)
  echo "$p rc=$rc secs=$((e-s))" >> /verif/.scratch/thorough.log
done
