#!/bin/bash
# runs every thorough tier once, sequentially; log to /verif/.scratch/thorough.log

# with "vp run --with-repo" the checks run against the snapshot of /repo
if [ -n "$VP_RUN_REPO" ]; then export VERIF_REPO="$VP_RUN_REPO"; fi
for p in "$@"; do
  s=$(date +%s)
  ./check $p thorough > /verif/.scratch/thorough-$p.out 2>&1
  rc=$?
  e=$(date +%s)
  echo "$p rc=$rc secs=$((e-s))" >> /verif/.scratch/thorough.log
done
