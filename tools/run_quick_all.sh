#!/bin/bash
# runs every quick tier sequentially in the current tree; log to .scratch/quick.log
mkdir -p /verif/.scratch
: > /verif/.scratch/quick.log
for p in "$@"; do
  s=$(date +%s)
  ./check $p quick > /verif/.scratch/quick-$p.out 2>&1
  rc=$?
  e=$(date +%s)
  echo "$p rc=$rc secs=$((e-s))" >> /verif/.scratch/quick.log
done
