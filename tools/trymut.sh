#!/bin/bash
# usage: trymut.sh <patch> <pkgs> <prop> [run-substring]   -- apply a seeded patch, run gosx, revert
export GOFLAGS=-mod=mod GOPROXY=off GOSUMDB=off GOTOOLCHAIN=local
git -C /repo apply "$1" || exit 9
timeout 1800 /verif/bin/gosx -repo /repo -overlay /verif/harness -pkgs "$2" -prop "$3" ${4:+-run $4} -tier quick -workers 12 -out /tmp/trymut.json -timeout 20000 2>&1 | tail -12
git -C /repo checkout -- .
