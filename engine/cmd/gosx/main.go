// gosx: symbolic execution of go/ssa harnesses over /repo with an SMT back end.
package main

import (
	"encoding/json"
	"flag"
	"fmt"
	"os"
	"strings"
	"time"

	"verif/engine/interp"
)

func main() {
	repo := flag.String("repo", "/repo", "repository under test")
	overlay := flag.String("overlay", "/verif/harness", "harness overlay root (mirrors repo layout)")
	pkgs := flag.String("pkgs", "./...", "comma-separated package patterns to load")
	prop := flag.String("prop", "", "run harnesses with this prop attribute")
	only := flag.String("run", "", "run only harnesses whose name contains this")
	tier := flag.String("tier", "quick", "quick|thorough")
	out := flag.String("out", "", "write results JSON here")
	workers := flag.Int("workers", 8, "parallel workers per harness")
	solver := flag.String("solver", "z3 -in", "solver command")
	timeout := flag.Int("timeout", 20000, "solver timeout per query (ms)")
	verbose := flag.Bool("v", false, "verbose")
	goBin := flag.String("go", "/opt/veriftools/go1.26.8/bin/go", "go binary for package loading")
	modelFile := flag.String("model", "", "replay one model concretely in the interpreter")
	list := flag.Bool("list", false, "list harnesses")
	maxPaths := flag.Int("maxpaths", 0, "stop a harness after this many paths (inconclusive)")
	flag.Parse()

	t0 := time.Now()
	l, err := interp.Load(*repo, *overlay, strings.Split(*pkgs, ","), *goBin)
	if err != nil {
		fmt.Fprintln(os.Stderr, "load:", err)
		os.Exit(3)
	}
	loadSec := time.Since(t0).Seconds()
	fmt.Fprintf(os.Stderr, "loaded in %.1fs: %d harnesses\n", loadSec, len(l.Harnesses))
	if *list {
		for _, h := range l.Harnesses {
			fmt.Println(h.Name, h.Attrs)
		}
		return
	}
	var model map[string]string
	if *modelFile != "" {
		b, err := os.ReadFile(*modelFile)
		if err != nil {
			fmt.Fprintln(os.Stderr, err)
			os.Exit(3)
		}
		var mf struct {
			Harness string            `json:"harness"`
			Model   map[string]string `json:"model"`
		}
		if err := json.Unmarshal(b, &mf); err != nil {
			fmt.Fprintln(os.Stderr, err)
			os.Exit(3)
		}
		model = mf.Model
		if *only == "" {
			*only = mf.Harness
		}
	}
	type outT struct {
		LoadSec float64          `json:"load_s"`
		Results []*interp.Result `json:"results"`
		Attrs   map[string]map[string]string `json:"attrs"`
	}
	o := outT{LoadSec: loadSec, Attrs: map[string]map[string]string{}}
	for _, h := range l.Harnesses {
		if *prop != "" && !hasProp(h.Attrs["prop"], *prop) {
			continue
		}
		if *only != "" && !strings.Contains(h.Name, *only) {
			continue
		}
		if t := h.Attrs["tier"]; t == "thorough" && *tier != "thorough" {
			continue
		}
		opt := interp.Options{
			SolverArgv: strings.Fields(*solver),
			TimeoutMs:  *timeout,
			Workers:    *workers,
			Verbose:    *verbose,
			GoMode:     h.Attrs["go"],
			Clock:      h.Attrs["clock"],
			Model:      model,
		}
		if v := h.Attrs["z3timeout"]; v != "" {
			fmt.Sscan(v, &opt.TimeoutMs)
		}
		opt.MaxPaths = *maxPaths
		if v := h.Attrs["maxpaths"]; v != "" {
			fmt.Sscan(v, &opt.MaxPaths)
		}
		opt.Preempt = 2
		if v := h.Attrs["preempt"]; v != "" {
			fmt.Sscan(v, &opt.Preempt)
		}
		if v := h.Attrs["timers"]; v != "" {
			fmt.Sscan(v, &opt.Timers)
		}
		opt.AtomicPoints = h.Attrs["atomicpoints"] == "1"
		if v := h.Attrs["maxinstrs"]; v != "" {
			fmt.Sscan(v, &opt.MaxInstrs)
		}
		r := interp.RunHarness(l.P, h.Fn, opt)
		r.Harness = h.Name
		o.Results = append(o.Results, r)
		o.Attrs[h.Name] = h.Attrs
		fmt.Fprintf(os.Stderr, "%-40s paths=%d forks=%d sat=%d unsat=%d unk=%d viol=%d inconcl=%d solver=%.1fs wall=%.1fs\n",
			h.Name, r.Paths, r.Forks, r.Sat, r.Unsat, r.Unknown, len(r.Violations), len(r.Inconclusive), r.SolverSec, r.WallSec)
		for _, v := range r.Violations {
			fmt.Fprintf(os.Stderr, "   VIOLATED %s\n", v.Label)
		}
		for _, v := range r.Inconclusive {
			fmt.Fprintf(os.Stderr, "   INCONCLUSIVE %s\n", v)
		}
	}
	b, _ := json.MarshalIndent(o, "", " ")
	if *out != "" {
		os.WriteFile(*out, b, 0o644)
	} else {
		os.Stdout.Write(b)
	}
}

func hasProp(list, p string) bool {
	for _, x := range strings.Split(list, ",") {
		if x == p {
			return true
		}
	}
	return false
}
