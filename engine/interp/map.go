package interp

// Ordered map with symbolic-key support. Iteration is in insertion order
// (deterministic; Go leaves map order unspecified).

import (
	"fmt"
	"go/types"
	"strings"
	"unsafe"

	"golang.org/x/tools/go/ssa"
)

type entry struct {
	key     value
	value   value
	deleted bool
	symKey  bool
}

type hashmap struct {
	keyType types.Type
	ents    []*entry
	idx     map[string]*entry // concrete keys
	nlive   int
	nsym    int // live entries with symbolic keys
}

func makeMap(kt types.Type, reserve int64) value {
	return &hashmap{keyType: kt, idx: map[string]*entry{}}
}

// keyString renders a concrete key canonically.
func keyString(sb *strings.Builder, v value) {
	switch v := v.(type) {
	case string:
		fmt.Fprintf(sb, "%q", v)
	case array:
		sb.WriteByte('[')
		for _, e := range v {
			keyString(sb, e)
			sb.WriteByte(',')
		}
		sb.WriteByte(']')
	case structure:
		sb.WriteByte('{')
		for _, e := range v {
			keyString(sb, e)
			sb.WriteByte(',')
		}
		sb.WriteByte('}')
	case iface:
		if v.t == nil {
			sb.WriteString("<nil>")
		} else {
			sb.WriteString(v.t.String())
			sb.WriteByte(':')
			keyString(sb, v.v)
		}
	case *value:
		fmt.Fprintf(sb, "p%x", uintptr(unsafe.Pointer(v)))
	case chan value:
		fmt.Fprintf(sb, "c%p", v)
	case *ssa.Function, *closure, []value, *hashmap:
		panic(runtimeErr("runtime error: hash of unhashable type"))
	default:
		fmt.Fprintf(sb, "%T:%v", v, v)
	}
}

func (m *hashmap) find(i *interpreter, k value) *entry {
	if m == nil {
		return nil
	}
	if ts, ok := k.(tabstr); ok {
		if v, found, handled := i.tabLookup(m, ts); handled {
			if !found {
				return nil
			}
			return &entry{key: k, value: v}
		}
		panic(engineAbort{"map lookup keyed by a table-selected string: not an identity/absent table"})
	}
	if !hasSym(k) {
		var sb strings.Builder
		keyString(&sb, k)
		if e, ok := m.idx[sb.String()]; ok {
			return e
		}
		if m.nsym == 0 {
			return nil
		}
		for _, e := range m.ents {
			if e.deleted || !e.symKey {
				continue
			}
			if i.decide(i.eqTerm(m.keyType, k, e.key), "map key equality") {
				return e
			}
		}
		return nil
	}
	for _, e := range m.ents {
		if e.deleted {
			continue
		}
		if i.decide(i.eqTerm(m.keyType, k, e.key), "map key equality") {
			return e
		}
	}
	return nil
}

func (m *hashmap) lookup(i *interpreter, k value) (value, bool) {
	if e := m.find(i, k); e != nil {
		return e.value, true
	}
	return nil, false
}

func (m *hashmap) insert(i *interpreter, k, v value) {
	if m == nil {
		panic(runtimeErr("assignment to entry in nil map"))
	}
	if e := m.find(i, k); e != nil {
		e.value = v
		return
	}
	e := &entry{key: k, value: v, symKey: hasSym(k)}
	m.ents = append(m.ents, e)
	m.nlive++
	if e.symKey {
		m.nsym++
	} else {
		var sb strings.Builder
		keyString(&sb, k)
		m.idx[sb.String()] = e
	}
}

func (m *hashmap) delete(i *interpreter, k value) {
	e := m.find(i, k)
	if e == nil {
		return
	}
	e.deleted = true
	m.nlive--
	if e.symKey {
		m.nsym--
	} else {
		var sb strings.Builder
		keyString(&sb, e.key)
		delete(m.idx, sb.String())
	}
	// compact occasionally
	if len(m.ents) > 32 && m.nlive < len(m.ents)/2 {
		var live []*entry
		for _, e := range m.ents {
			if !e.deleted {
				live = append(live, e)
			}
		}
		m.ents = live
	}
}

func (m *hashmap) clear() {
	if m == nil {
		return
	}
	for _, e := range m.ents {
		e.deleted = true
	}
	m.ents = nil
	m.idx = map[string]*entry{}
	m.nlive, m.nsym = 0, 0
}

func (m *hashmap) len() int {
	if m == nil {
		return 0
	}
	return m.nlive
}

func (m *hashmap) live() []*entry {
	if m == nil {
		return nil
	}
	var out []*entry
	for _, e := range m.ents {
		if !e.deleted {
			out = append(out, e)
		}
	}
	return out
}

type hashmapIter struct {
	ents []*entry
	pos  int
}

func (m *hashmap) iter() iter { return &hashmapIter{ents: m.live()} }

func (it *hashmapIter) next() tuple {
	for it.pos < len(it.ents) {
		e := it.ents[it.pos]
		it.pos++
		if e.deleted {
			continue
		}
		return []value{true, e.key, e.value}
	}
	return []value{false, nil, nil}
}
