package interp

// Loading the repository (with overlay harness files) into SSA.

import (
	"fmt"
	"go/ast"
	"go/types"
	"os"
	"path/filepath"
	"sort"
	"strings"

	"golang.org/x/tools/go/packages"
	"golang.org/x/tools/go/ssa"
	"golang.org/x/tools/go/ssa/ssautil"
)

// HarnessInfo describes one harness function found in the overlay files.
type HarnessInfo struct {
	Name    string
	Fn      *ssa.Function
	Attrs   map[string]string
	File    string
	SrcHash string
}

// Loaded is a loaded program plus the harnesses found in it.
type Loaded struct {
	P         *Program
	Harnesses []*HarnessInfo
	Pkgs      []*packages.Package
	FuncSrc   map[string]string // ssa function name -> "file:line"
}

// Load builds SSA for patterns under repoDir with the harness overlay applied.
// overlayRoot mirrors the repository layout; every file under it is overlaid
// at the same relative path in repoDir.
func Load(repoDir, overlayRoot string, patterns []string, goBin string) (*Loaded, error) {
	overlay := map[string][]byte{}
	err := filepath.Walk(overlayRoot, func(path string, info os.FileInfo, err error) error {
		if err != nil {
			return err
		}
		if info.IsDir() || !strings.HasSuffix(path, ".go") {
			return nil
		}
		rel, _ := filepath.Rel(overlayRoot, path)
		b, err := os.ReadFile(path)
		if err != nil {
			return err
		}
		overlay[filepath.Join(repoDir, rel)] = b
		return nil
	})
	if err != nil {
		return nil, err
	}
	env := append(os.Environ(), "GOFLAGS=-mod=mod", "GOPROXY=off", "GOSUMDB=off", "GOTOOLCHAIN=local")
	if goBin != "" {
		// go/packages resolves "go" through this process's PATH: put a
		// directory holding a "go" symlink to the wanted toolchain first.
		dir := filepath.Dir(goBin)
		if filepath.Base(goBin) != "go" {
			tmp, err := os.MkdirTemp("", "gosx-go")
			if err == nil {
				os.Symlink(goBin, filepath.Join(tmp, "go"))
				dir = tmp
				defer os.RemoveAll(tmp)
			}
		}
		os.Setenv("PATH", dir+":"+os.Getenv("PATH"))
		env = append(os.Environ(), "GOFLAGS=-mod=mod", "GOPROXY=off", "GOSUMDB=off", "GOTOOLCHAIN=local")
	}
	cfg := &packages.Config{
		Mode:    packages.LoadAllSyntax,
		Dir:     repoDir,
		Tests:   true,
		Overlay: overlay,
		Env:     env,
	}
	pkgs, err := packages.Load(cfg, patterns...)
	if err != nil {
		return nil, err
	}
	nerr := 0
	packages.Visit(pkgs, nil, func(p *packages.Package) {
		for _, e := range p.Errors {
			if nerr < 20 {
				fmt.Fprintln(os.Stderr, "load error:", e)
			}
			nerr++
		}
	})
	if nerr > 0 {
		return nil, fmt.Errorf("%d package load errors (the repository or a harness does not type-check)", nerr)
	}
	prog, spkgs := ssautil.AllPackages(pkgs, ssa.InstantiateGenerics)
	prog.Build()
	l := &Loaded{P: &Program{Prog: prog, Sizes: types.SizesFor("gc", "amd64"), Redirects: map[string]*ssa.Function{}}, Pkgs: pkgs, FuncSrc: map[string]string{}}
	_ = spkgs
	var all []*packages.Package
	packages.Visit(pkgs, nil, func(p *packages.Package) {
		if strings.HasPrefix(p.PkgPath, "go.sia.tech/coreutils") {
			all = append(all, p)
		}
	})
	for _, p := range all {
		sp := prog.Package(p.Types)
		if sp == nil {
			continue
		}
		for _, f := range p.Syntax {
			fname := prog.Fset.Position(f.Pos()).Filename
			for _, d := range f.Decls {
				fd, ok := d.(*ast.FuncDecl)
				if !ok || fd.Doc == nil || fd.Recv != nil {
					continue
				}
				for _, c := range fd.Doc.List {
					txt := strings.TrimSpace(strings.TrimPrefix(c.Text, "//"))
					switch {
					case strings.HasPrefix(txt, "verif:replace "):
						target := strings.TrimSpace(strings.TrimPrefix(txt, "verif:replace "))
						fn := sp.Func(fd.Name.Name)
						if fn == nil {
							return nil, fmt.Errorf("verif:replace on unknown function %s", fd.Name.Name)
						}
						l.P.Redirects[target] = fn
					case strings.HasPrefix(txt, "verif:harness"):
						fn := sp.Func(fd.Name.Name)
						if fn == nil {
							continue
						}
						attrs := map[string]string{}
						for _, kv := range splitAttrs(strings.TrimPrefix(txt, "verif:harness")) {
							if k, v, ok := strings.Cut(kv, "="); ok {
								attrs[k] = strings.Trim(v, "\"")
							}
						}
						l.Harnesses = append(l.Harnesses, &HarnessInfo{Name: fd.Name.Name, Fn: fn, Attrs: attrs, File: fname})
					}
				}
			}
		}
	}
	// de-duplicate harnesses (a package may appear as several test variants)
	seen := map[string]bool{}
	var hs []*HarnessInfo
	for _, h := range l.Harnesses {
		if seen[h.Name] {
			continue
		}
		seen[h.Name] = true
		hs = append(hs, h)
	}
	sort.Slice(hs, func(a, b int) bool { return hs[a].Name < hs[b].Name })
	l.Harnesses = hs
	return l, nil
}

// splitAttrs splits `a=b c="d e"` on spaces outside quotes.
func splitAttrs(s string) []string {
	var out []string
	var cur strings.Builder
	inq := false
	for _, r := range s {
		switch {
		case r == '"':
			inq = !inq
			cur.WriteRune(r)
		case r == ' ' && !inq:
			if cur.Len() > 0 {
				out = append(out, cur.String())
				cur.Reset()
			}
		default:
			cur.WriteRune(r)
		}
	}
	if cur.Len() > 0 {
		out = append(out, cur.String())
	}
	return out
}

// FuncPos returns file:line of an SSA function name, if known.
func (l *Loaded) FuncPos(fn *ssa.Function) string {
	if fn == nil || !fn.Pos().IsValid() {
		return ""
	}
	p := l.P.Prog.Fset.Position(fn.Pos())
	return fmt.Sprintf("%s:%d", p.Filename, p.Line)
}
