package interp

// Cooperative goroutine scheduler with symbolic scheduling decisions.
//
// With goMode "sched" every `go` statement creates an interpreted goroutine
// (carried by a real Go goroutine, but only the holder of the baton runs).
// Context switches happen only at synchronisation operations (channel
// operations, select, mutex/waitgroup/once/cond operations, atomics, `go`,
// goroutine exit, vapi.Yield). At such a point the next goroutine is the value
// of a fresh nondeterministic variable sched!k constrained to the runnable set,
// concretised by the path explorer: every feasible value is explored, the
// variable is part of every model and replays deterministically.
//
// Bounds (delay bounding, Emmi/Qadeer/Rakamaric 2011): the default scheduler
// is deterministic, non-preemptive and round-robin (a goroutine runs until it
// blocks or exits, then the next runnable one in creation order after it runs).
// At every scheduling point - before each synchronisation operation, and at
// each block or exit - the explorer may instead skip k candidates of that
// order at a cost of k delays; a path may spend at most maxPreempt delays.
// All schedules with at most that many delays are explored. Timers fire at most
// timerBudget times per path.

import (
	"fmt"
	"os"
	"math/big"
	"go/token"
	"go/types"
	"strings"
	"sync"

	"golang.org/x/tools/go/ssa"
)

type goKill struct{}

type gor struct {
	id    int
	name  string
	wake  chan int // 1 = run, 2 = kill
	exited chan struct{}
	ready func() bool
	why   string
	done  bool
	stack []*ssa.Function
	timer *timerState // non-nil: a pending AfterFunc
	waitsTimer bool   // blocked in a select with a live timer channel
	watcher    bool   // parked in vapi.WaitStuck: not part of the program under test
}

type scheduler struct {
	on         bool
	gs         []*gor
	cur        *gor
	main       *gor
	preempts   int
	maxPreempt int
	timerLeft  int
	stuck      bool // the timer budget ran out with every goroutine blocked (told to vapi.WaitStuck once)
	watchers   int
	fault      any
	wg         sync.WaitGroup
	nchoice    int
	switches   int
	atomicPoints bool
	wgCount    map[*value]int
	once       map[*value]int
	onceOwner  map[*value]*gor
	owner      map[*value]*gor
	condW      map[*value][]*bool
	timers     map[*value]*timerState
}

const (
	wakeRun  = 1
	wakeKill = 2
)

func (i *interpreter) schedInit(on bool, maxPreempt, timers int) {
	m := &gor{id: 0, name: "main", wake: make(chan int, 1)}
	i.sched = &scheduler{on: on, gs: []*gor{m}, cur: m, main: m, maxPreempt: maxPreempt, timerLeft: timers,
		wgCount: map[*value]int{}, once: map[*value]int{}, onceOwner: map[*value]*gor{}, owner: map[*value]*gor{},
		condW: map[*value][]*bool{}, timers: map[*value]*timerState{}}
}

// schedTeardown kills every parked goroutine and waits for them to unwind.
func (i *interpreter) schedTeardown() {
	s := i.sched
	if s == nil {
		return
	}
	for _, g := range s.gs {
		if g != s.main && !g.done {
			g.done = true
			g.wake <- wakeKill
			<-g.exited
		}
	}
	s.wg.Wait()
}

func (g *gor) runnable() bool {
	if g.done {
		return false
	}
	return g.ready == nil || g.ready()
}

// chooseN returns a value in [0,n) chosen by a nondeterministic variable.
func (i *interpreter) chooseN(n int, name string) int {
	if n <= 1 {
		return 0
	}
	v := i.nondet(name, types.Uint8)
	s, ok := v.(sym)
	if !ok {
		// concrete re-execution of a model
		k := int(v.(uint8))
		if k >= n {
			k = 0
		}
		return k
	}
	// every value below n is feasible (fresh variable): no solver call
	p := i.path
	pos := len(p.trace)
	val := 0
	if pos < len(p.prefix) {
		c := p.prefix[pos]
		if c.kind != 'n' || c.n != n {
			panic(engineAbort{fmt.Sprintf("replay divergence at decision %d (%s): expected %d-way choice", pos, name, n)})
		}
		val = int(c.val.Int64())
		p.trace = append(p.trace, choice{kind: 'n', val: c.val, n: n, where: name})
	} else {
		p.trace = append(p.trace, choice{kind: 'n', val: big.NewInt(0), n: n, altOpen: true, where: name})
		i.stats.forks += n - 1
	}
	i.addPC(i.tt.Eq(s.t, i.tt.ConstU(8, uint64(val))))
	return val
}

// transfer hands the baton to g and parks the calling goroutine (unless it is
// finished). On wake-up it re-raises a fault recorded for the main goroutine.
func (i *interpreter) transfer(g *gor, park bool) {
	s := i.sched
	prev := s.cur
	if g == prev {
		return
	}
	prev.stack = append(prev.stack[:0], i.stack...)
	if i.verbose {
		fmt.Fprintf(os.Stderr, "SCHED g%d(%s) -> g%d(%s) park=%v\n", prev.id, prev.name, g.id, g.name, park)
	}
	s.cur = g
	s.switches++
	i.stack = append(i.stack[:0], g.stack...)
	g.wake <- wakeRun
	if !park {
		return
	}
	i.park(prev)
}

func (i *interpreter) park(g *gor) {
	msg := <-g.wake
	if msg == wakeKill {
		panic(goKill{})
	}
	s := i.sched
	if g == s.main && s.fault != nil {
		f := s.fault
		s.fault = nil
		panic(f)
	}
}

// raise reports v (an engine control panic or an unrecovered target panic) in
// the main goroutine.
func (i *interpreter) raiseInMain(v any) {
	s := i.sched
	if s.cur == s.main {
		panic(v)
	}
	// unwind this goroutine first; its top-level handler hands the fault over
	s.fault = v
	panic(goKill{})
}

func (i *interpreter) others(includeCur bool) []*gor {
	s := i.sched
	var out []*gor
	// round-robin order starting after the current goroutine
	n := len(s.gs)
	for d := 1; d < n; d++ {
		g := s.gs[(s.cur.id+d)%n]
		if g.timer != nil && !g.timer.fired && (s.timerLeft <= 0 || g.timer.stopped) {
			continue
		}
		if g.runnable() {
			out = append(out, g)
		}
	}
	return out
}

// delayChoice picks an index into a candidate list of length n: index 0 is
// the deterministic (non-preemptive round-robin) choice, index k costs k
// delays out of the path's budget.
func (i *interpreter) delayChoice(n int) int {
	s := i.sched
	left := s.maxPreempt - s.preempts
	if left < 0 {
		left = 0
	}
	if n > left+1 {
		n = left + 1
	}
	s.nchoice++
	k := i.chooseN(n, "sched")
	s.preempts += k
	return k
}

func (i *interpreter) pick(g *gor) {
	if g.timer != nil && !g.timer.fired {
		g.timer.fired = true
		i.sched.timerLeft--
	}
}

// schedPoint is a preemption opportunity before a visible operation.
func (i *interpreter) schedPoint(why string) {
	s := i.sched
	if s == nil || !s.on || len(s.gs) == 1 {
		return
	}
	if s.preempts >= s.maxPreempt {
		return
	}
	if i.inInit() {
		return
	}
	cands := i.others(false)
	if len(cands) == 0 {
		return
	}
	k := i.delayChoice(len(cands) + 1)
	if k == 0 {
		return
	}
	g := cands[k-1]
	i.pick(g)
	i.transfer(g, true)
}

// blockUntil parks the current goroutine until ready() holds.
func (i *interpreter) blockUntil(ready func() bool, why string) {
	s := i.sched
	for !ready() {
		if s == nil || !s.on {
			panic(engineAbort{"blocking operation (" + why + ") without a scheduler: the harness runs goroutines " + i.h.goMode + "; call stack" + i.stackString()})
		}
		me := s.cur
		me.ready, me.why = ready, why
		cands := i.others(false)
		if len(cands) == 0 {
			i.deadlock()
			cands = i.others(false) // a watcher was woken
			if len(cands) == 0 {
				i.raiseInMain(pathEnd{"timer budget exhausted"})
				panic(goKill{})
			}
		}
		k := i.delayChoice(len(cands))
		g := cands[k]
		i.pick(g)
		i.transfer(g, true)
		me.ready, me.why = nil, ""
	}
}

func (i *interpreter) deadlock() {
	s := i.sched
	// a goroutine waiting for a timer that may not fire any more (budget) is
	// not deadlocked: the path is outside the explored bound
	for _, g := range s.gs {
		if g.done {
			continue
		}
		if g.waitsTimer || (g.timer != nil && !g.timer.fired && !g.timer.stopped) {
			if s.watchers > 0 && !s.stuck {
				// let the harness look at the state the program is stuck in
				// (everything blocked, only ticks left) before the path ends
				s.stuck = true
				return
			}
			i.raiseInMain(pathEnd{"timer budget exhausted"})
			panic(goKill{})
		}
	}
	var sb strings.Builder
	for _, g := range s.gs {
		if g.done || g.timer != nil {
			continue
		}
		why := g.why
		if g == s.cur && why == "" {
			why = "running"
		}
		fmt.Fprintf(&sb, " [g%d %s: %s]", g.id, g.name, why)
	}
	msg := "all goroutines are blocked:" + sb.String()
	i.recordViolation("deadlock: "+msg, nil)
	i.raiseInMain(assertFail{"deadlock"})
	panic(goKill{})
}

// goExit is called when a spawned goroutine's function has returned.
func (i *interpreter) goExit(me *gor) {
	me.done = true
	cands := i.others(false)
	if len(cands) == 0 {
		// nothing can run: main must be blocked
		i.deadlock()
		cands = i.others(false) // a watcher was woken
		if len(cands) == 0 {
			return
		}
	}
	k := i.delayChoice(len(cands))
	g := cands[k]
	i.pick(g)
	i.transfer(g, false)
}

// spawnSched starts fn(args) as a new interpreted goroutine.
func (i *interpreter) spawnSched(pos token.Pos, fn value, args []value, ts *timerState) *gor {
	name := "func"
	switch f := fn.(type) {
	case *ssa.Function:
		name = f.String()
	case *closure:
		name = f.Fn.String()
	}
	return i.spawnBody(name, func() { call(i, nil, pos, fn, args) }, ts)
}

func (i *interpreter) spawnBody(name string, body func(), ts *timerState) *gor {
	s := i.sched
	g := &gor{id: len(s.gs), name: name, wake: make(chan int, 1), timer: ts, exited: make(chan struct{})}
	s.gs = append(s.gs, g)
	if i.verbose {
		fmt.Fprintf(os.Stderr, "SPAWN g%d %s by g%d\n", g.id, g.name, s.cur.id)
	}
	s.wg.Add(1)
	go func() {
		defer s.wg.Done()
		defer close(g.exited)
		if msg := <-g.wake; msg == wakeKill {
			return
		}
		defer func() {
			r := recover()
			if s.cur != g {
				return // finished normally, or killed by the teardown
			}
			if r != nil {
				if _, ok := r.(goKill); !ok {
					s.fault = r // unrecovered target panic or engine condition
				}
			}
			if s.fault == nil {
				return
			}
			g.done = true
			s.cur = s.main
			i.stack = append(i.stack[:0], s.main.stack...)
			s.main.wake <- wakeRun
		}()
		body()
		i.goExit(g)
	}()
	return g
}

// ---- channels ---------------------------------------------------------------

type chanObj struct {
	cap    int
	buf    []value
	closed bool
	recvq  []*waiter
	sendq  []*waiter
	timer  *timerState // time.Timer / time.Ticker channel
	elem   types.Type
}

type selWait struct {
	fired bool
	idx   int
	val   value
	ok    bool
}

type waiter struct {
	sel *selWait
	idx int
	val value // value offered by a sender
}

type selCase struct {
	ch   *chanObj
	send bool
	val  value
}

func liveHead(q *[]*waiter) *waiter {
	for len(*q) > 0 {
		w := (*q)[0]
		if !w.sel.fired {
			return w
		}
		*q = (*q)[1:]
	}
	return nil
}

func (c *chanObj) recvReady(i *interpreter) bool {
	if c == nil {
		return false
	}
	if len(c.buf) > 0 || c.closed || liveHead(&c.sendq) != nil {
		return true
	}
	if c.timer != nil && !c.timer.stopped && i.sched != nil && i.sched.timerLeft > 0 {
		return true
	}
	return false
}

func (c *chanObj) sendReady() bool {
	if c == nil {
		return false
	}
	return c.closed || len(c.buf) < c.cap || liveHead(&c.recvq) != nil
}

// selectOp implements send, receive and select.
func (i *interpreter) selectOp(cases []selCase, blocking bool, where string) (int, value, bool) {
	i.schedPoint("chan op")
	var ready []int
	for k, c := range cases {
		if c.send && c.ch.sendReady() || !c.send && c.ch.recvReady(i) {
			ready = append(ready, k)
		}
	}
	if len(ready) > 0 {
		k := ready[0]
		if len(ready) > 1 {
			k = ready[i.chooseN(len(ready), "select")]
		}
		c := cases[k]
		if c.send {
			c.ch.doSend(c.val)
			return k, nil, false
		}
		v, ok := c.ch.doRecv(i)
		return k, v, ok
	}
	if !blocking {
		return -1, nil, false
	}
	sw := &selWait{}
	for k, c := range cases {
		if c.ch == nil {
			continue
		}
		w := &waiter{sel: sw, idx: k, val: c.val}
		if c.send {
			c.ch.sendq = append(c.ch.sendq, w)
		} else {
			c.ch.recvq = append(c.ch.recvq, w)
		}
	}
	// a timer channel may become ready only through the budget; poll it too
	if i.sched != nil {
		me := i.sched.cur
		for _, c := range cases {
			if !c.send && c.ch != nil && c.ch.timer != nil && !c.ch.timer.stopped {
				me.waitsTimer = true
			}
		}
		defer func() { me.waitsTimer = false }()
	}
	i.blockUntil(func() bool {
		if sw.fired {
			return true
		}
		for _, c := range cases {
			if !c.send && c.ch != nil && c.ch.timer != nil && c.ch.recvReady(i) {
				return true
			}
		}
		return false
	}, "chan "+where)
	if !sw.fired {
		for k, c := range cases {
			if !c.send && c.ch != nil && c.ch.timer != nil && c.ch.recvReady(i) {
				sw.fired = true
				v, ok := c.ch.doRecv(i)
				return k, v, ok
			}
		}
	}
	c := cases[sw.idx]
	if c.send && c.ch.closed && !sw.ok {
		panic(runtimeErr("send on closed channel"))
	}
	return sw.idx, sw.val, sw.ok
}

func (c *chanObj) doSend(v value) {
	if c.closed {
		panic(runtimeErr("send on closed channel"))
	}
	if w := liveHead(&c.recvq); w != nil {
		c.recvq = c.recvq[1:]
		w.sel.fired, w.sel.idx, w.sel.val, w.sel.ok = true, w.idx, v, true
		return
	}
	c.buf = append(c.buf, v)
}

func (c *chanObj) doRecv(i *interpreter) (value, bool) {
	if len(c.buf) > 0 {
		v := c.buf[0]
		c.buf = c.buf[1:]
		if w := liveHead(&c.sendq); w != nil {
			c.sendq = c.sendq[1:]
			c.buf = append(c.buf, w.val)
			w.sel.fired, w.sel.idx, w.sel.ok = true, w.idx, true
		}
		return v, true
	}
	if w := liveHead(&c.sendq); w != nil {
		c.sendq = c.sendq[1:]
		w.sel.fired, w.sel.idx, w.sel.ok = true, w.idx, true
		return w.val, true
	}
	if c.closed {
		return zero(c.elem), false
	}
	if c.timer != nil {
		i.sched.timerLeft--
		if !c.timer.periodic {
			c.timer.stopped = true
		}
		return zero(c.elem), true
	}
	panic("doRecv: not ready")
}

func (c *chanObj) close() {
	if c == nil {
		panic(runtimeErr("close of nil channel"))
	}
	if c.closed {
		panic(runtimeErr("close of closed channel"))
	}
	c.closed = true
	for _, w := range c.recvq {
		if !w.sel.fired {
			w.sel.fired, w.sel.idx, w.sel.val, w.sel.ok = true, w.idx, zero(c.elem), false
		}
	}
	c.recvq = nil
	for _, w := range c.sendq {
		if !w.sel.fired {
			w.sel.fired, w.sel.idx, w.sel.ok = true, w.idx, false // wakes and panics
		}
	}
	c.sendq = nil
}

// ---- timers -----------------------------------------------------------------

type timerState struct {
	stopped  bool
	fired    bool
	periodic bool
}
