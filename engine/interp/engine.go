package interp

// Engine glue: interpreter construction, lazy globals and package
// initialisation, call dispatch (natives, redirects), and the symbolic
// front of binop/conv.

import (
	"fmt"
	"go/token"
	"go/types"
	"os"
	"runtime"
	"sort"
	"strings"

	"golang.org/x/tools/go/ssa"
)

// FallbackSolver is consulted when the primary solver answers unknown.
var FallbackSolver = []string{"cvc5", "--incremental", "--solve-bv-as-int=sum", "--tlimit=120000"}

type runStats struct {
	paths, decisions, forks int
	assertsChecked          int
	concretePaths           int
}

type fnInfo struct {
	name     string
	native   nativeFn
	redirect *ssa.Function
	repo     bool
	ext      externalFn
}

type nativeFn func(fr *frame, fn *ssa.Function, args []value) value

func mustDeref(t types.Type) types.Type {
	if p, ok := t.Underlying().(*types.Pointer); ok {
		return p.Elem()
	}
	panic(fmt.Sprintf("mustDeref: %v is not a pointer", t))
}

// Program is the loaded SSA program shared by all interpreters.
type Program struct {
	Prog      *ssa.Program
	Sizes     types.Sizes
	Redirects map[string]*ssa.Function // from //verif:replace directives
	RepoPath  string                   // module path prefix of the code under test
	reflectOK bool
}

func newInterpreter(p *Program, solverArgv []string, timeoutMs int) *interpreter {
	i := &interpreter{
		prog:          p.Prog,
		globals:       make(map[*ssa.Global]*value),
		sizes:         p.Sizes,
		goroutines:    1,
		tt:            newTermTable(),
		maxConcretize: 64,
		maxInstrs:     50_000_000,
		fnInfo:        map[*ssa.Function]*fnInfo{},
		redirects:     p.Redirects,
		initDone:      map[*ssa.Package]bool{},
		covered:       map[string]int{},
		stubbed:       map[string]int{},
	}
	if rt := i.prog.ImportedPackage("runtime"); rt != nil {
		if t := rt.Type("errorString"); t != nil {
			i.runtimeErrorString = t.Object().Type()
		}
	}
	i.rtypeMethods = methodSet{}
	i.errorMethods = methodSet{}
	i.solver = newSolver(i.tt, solverArgv, timeoutMs)
	i.solver.fallbackArgv = FallbackSolver
	if v := os.Getenv("GOSX_FALLBACK"); v != "" {
		// testing aid: replace the first fallback (e.g. by /bin/false to force the third stage)
		i.solver.fallbackArgv = strings.Fields(v)
	}
	i.path = &pathState{nondetSeq: map[string]int{}, held: map[*value]int{}, reached: map[string]bool{}}
	return i
}

var initAllow = []string{
	"go.sia.tech/", "errors", "io", "bytes", "strings", "sort", "slices", "maps", "math", "math/bits",
	"math/big", "encoding/binary", "encoding/hex", "encoding/base64", "strconv", "unicode", "unicode/utf8", "unicode/utf16",
	"bufio", "hash", "cmp", "iter", "container/heap", "container/list", "context", "time",
}

func initAllowed(path string) bool {
	for _, a := range initAllow {
		if strings.HasSuffix(a, "/") {
			if strings.HasPrefix(path, a) {
				return true
			}
		} else if path == a {
			return true
		}
	}
	return false
}

// ensureInit runs the package initialiser of pkg (once per interpreter).
func (i *interpreter) ensureInit(pkg *ssa.Package) {
	if pkg == nil || i.initDone[pkg] {
		return
	}
	i.initDone[pkg] = true
	if !initAllowed(pkg.Pkg.Path()) {
		return
	}
	initFn := pkg.Func("init")
	if initFn == nil {
		return
	}
	func() {
		defer func() {
			if r := recover(); r != nil {
				switch r.(type) {
				case engineAbort:
					if i.verbose {
						fmt.Fprintf(os.Stderr, "init of %s aborted: %v\n", pkg.Pkg.Path(), r)
					}
				default:
					if i.verbose {
						fmt.Fprintf(os.Stderr, "init of %s panicked: %v%s\n%s\n", pkg.Pkg.Path(), r, i.panicStack, "")
					}
				}
			}
		}()
		saved := i.path.instrs
		savedDepth, savedStack := i.panicDepth, i.panicStack
		defer func() { i.panicDepth, i.panicStack = savedDepth, savedStack }()
		i.initPass = initFn
		callSSA(i, nil, token.NoPos, initFn, nil, nil)
		i.path.instrs = saved
	}()
}

// globalModels gives values to a few variables of packages whose initialisers
// are not run.
var globalModels = map[string]func(i *interpreter) (value, bool){
	"net.ErrClosed": func(i *interpreter) (value, bool) {
		poll := i.prog.ImportedPackage("internal/poll")
		if poll == nil {
			return nil, false
		}
		t := poll.Type("errNetClosing")
		if t == nil {
			return nil, false
		}
		return iface{t: t.Type(), v: zero(t.Type())}, true
	},
}

func (i *interpreter) global(g *ssa.Global) *value {
	if r, ok := i.globals[g]; ok {
		if i.uninit[g.Pkg] && g.Name() != "init$guard" && !i.modelled[g] && !i.inInit() {
			panic(engineAbort{"unsupported: read of global " + g.String() + " of a package whose init is not modelled" + i.stackString()})
		}
		return r
	}
	// allocate all globals of the package, then initialise it
	pkg := g.Pkg
	for _, m := range pkg.Members {
		if v, ok := m.(*ssa.Global); ok {
			if _, ok := i.globals[v]; !ok {
				cell := zero(mustDeref(v.Type()))
				i.globals[v] = &cell
			}
		}
	}
	if !initAllowed(pkg.Pkg.Path()) {
		if i.uninit == nil {
			i.uninit = map[*ssa.Package]bool{}
			i.modelled = map[*ssa.Global]bool{}
		}
		i.uninit[pkg] = true
		for _, m := range pkg.Members {
			if v, ok := m.(*ssa.Global); ok {
				if f := globalModels[pkg.Pkg.Path()+"."+v.Name()]; f != nil {
					if val, ok := f(i); ok {
						*i.globals[v] = val
						i.modelled[v] = true
					}
				}
			}
		}
		if i.modelled[g] {
			return i.globals[g]
		}
	}
	if g.Name() != "init$guard" {
		if !initAllowed(pkg.Pkg.Path()) && !i.inInit() {
			// reading a variable of a package whose initialiser is not run
			// would silently see a zero value: make it loud
			panic(engineAbort{"unsupported: read of global " + g.String() + " of a package whose init is not modelled" + i.stackString()})
		}
		i.ensureInit(pkg)
	}
	return i.globals[g]
}

// inInit reports whether a package initialiser is on the call stack.
func (i *interpreter) inInit() bool {
	for _, f := range i.stack {
		if f.Name() == "init" && f.Synthetic != "" {
			return true
		}
	}
	return false
}

func (i *interpreter) posString(pos token.Pos, fn *ssa.Function) string {
	if pos == token.NoPos {
		if fn != nil {
			return fn.String()
		}
		return "?"
	}
	p := i.prog.Fset.Position(pos)
	f := p.Filename
	if k := strings.LastIndex(f, "/"); k >= 0 {
		if j := strings.LastIndex(f[:k], "/"); j >= 0 {
			f = f[j+1:]
		}
	}
	return fmt.Sprintf("%s:%d", f, p.Line)
}

func (i *interpreter) info(fn *ssa.Function) *fnInfo {
	if inf, ok := i.fnInfo[fn]; ok {
		return inf
	}
	inf := &fnInfo{name: fn.String()}
	names := []string{inf.name}
	if o := fn.Origin(); o != nil && o != fn {
		names = append(names, o.String())
	}
	for _, n := range names {
		if r, ok := i.redirects[n]; ok && inf.redirect == nil {
			inf.redirect = r
		}
		if nf, ok := natives[n]; ok && inf.native == nil {
			inf.native = nf
		}
		if inf.native == nil && !(fn.Name() == "init" && fn.Synthetic != "") {
			for _, pn := range prefixNatives {
				if strings.HasPrefix(n, pn.prefix) {
					inf.native = pn.fn
					break
				}
			}
		}
		if fn.Parent() == nil {
			if e, ok := externals[n]; ok && inf.ext == nil {
				inf.ext = e
			}
		}
	}
	if fn.Pkg != nil && strings.HasPrefix(fn.Pkg.Pkg.Path(), "go.sia.tech/coreutils") {
		inf.repo = true
	} else if fn.Pkg == nil {
		// synthetic wrappers, instantiations: attribute by name
		inf.repo = strings.Contains(inf.name, "go.sia.tech/coreutils")
	}
	i.fnInfo[fn] = inf
	return inf
}

// dispatch handles natives, redirects and body-less functions.
func (i *interpreter) dispatch(fr *frame, fn *ssa.Function, args []value) (value, bool) {
	inf := i.info(fn)
	if inf.redirect != nil && !i.inRedirect(inf.redirect) {
		i.stubbed[inf.name+" => "+inf.redirect.String()]++
		return callSSA(i, fr.caller, token.NoPos, inf.redirect, args, nil), true
	}
	if inf.native != nil {
		i.stubbed[inf.name]++
		return inf.native(fr, fn, args), true
	}
	if inf.ext != nil {
		return inf.ext(fr, args), true
	}
	if fn.Name() == "init" && fn.Pkg != nil && fn.Synthetic != "" && fn.Parent() == nil && i.initPass != fn {
		// a package initialiser called from another initialiser: run it
		// protected, so that a failing dependency does not abort the importer
		i.global(fn.Pkg.Var("init$guard"))
		i.ensureInit(fn.Pkg)
		return nil, true
	}
	if i.initPass == fn {
		i.initPass = nil
	}
	if fn.Blocks == nil {
		// assembly-backed functions with a pure-Go twin
		if fn.Pkg != nil {
			for _, suffix := range []string{"_g", "Generic", "_generic"} {
				if g := fn.Pkg.Func(fn.Name() + suffix); g != nil && g.Blocks != nil {
					return callSSA(i, fr.caller, token.NoPos, g, args, nil), true
				}
			}
		}
		panic(engineAbort{"unsupported: no code for function " + inf.name + i.stackString()})
	}
	if fn.Pkg != nil && !i.initDone[fn.Pkg] {
		i.ensureInit(fn.Pkg)
	}
	if inf.repo {
		i.covered[inf.name]++
	}
	return nil, false
}

// inRedirect reports whether the redirect target is already on the call stack
// (so that a stub may call the function it replaces).
func (i *interpreter) inRedirect(target *ssa.Function) bool {
	for _, f := range i.stack {
		if f == target {
			return true
		}
	}
	return false
}

func (i *interpreter) stackString() string {
	var sb strings.Builder
	sb.WriteString("\n  call stack (innermost last):")
	start := 0
	if len(i.stack) > 25 {
		start = len(i.stack) - 25
	}
	for _, f := range i.stack[start:] {
		sb.WriteString("\n    " + f.String())
	}
	return sb.String()
}

// spawn implements the go statement: run to completion at once (sequential
// harnesses). A panic in the goroutine is a process crash in Go; report it.
func (i *interpreter) spawn(fr *frame, instr *ssa.Go, fn value, args []value) {
	switch i.h.goMode {
	case "sched":
		i.spawnSched(instr.Pos(), fn, args, nil)
		return
	case "skip":
		return
	case "defer":
		i.h.pendingGo = append(i.h.pendingGo, func() { call(i, nil, instr.Pos(), fn, args) })
		return
	}
	call(i, nil, instr.Pos(), fn, args)
}

func binop(i *interpreter, op token.Token, t types.Type, x, y value) value {
	_, sx := x.(sym)
	_, sy := y.(sym)
	if sx || sy {
		return i.symBinop(op, x, y)
	}
	switch x.(type) {
	case symstr:
		return i.strBinop(op, x, y)
	case tabstr, symjoin:
		return i.tabBinop(op, x, y)
	}
	switch y.(type) {
	case symstr:
		return i.strBinop(op, x, y)
	case tabstr, symjoin:
		return i.tabBinop(op, x, y)
	}
	if op == token.EQL || op == token.NEQ {
		switch x.(type) {
		case array, structure, iface:
			c := i.eqTerm(t, x, y)
			if op == token.NEQ {
				c = i.tt.Not(c)
			}
			return mkval(c, types.Bool)
		}
	}
	return binopConcrete(op, t, x, y)
}

func (i *interpreter) minmax(a, b value, isMin bool) value {
	if !isSym(a) && !isSym(b) {
		if isMin {
			return min(a, b)
		}
		return max(a, b)
	}
	k, _ := valueKind(a)
	ta, tb := i.tt.toTerm(a), i.tt.toTerm(b)
	lt := i.tt.Cmp(cmpOp(kindSigned(k), true), ta, tb)
	if isMin {
		return mkval(i.tt.Ite(lt, ta, tb), k)
	}
	return mkval(i.tt.Ite(lt, tb, ta), k)
}

// convSym is conv extended to symbolic scalars and strings.
func (i *interpreter) convSym(tDst, tSrc types.Type, x value) value {
	switch x := x.(type) {
	case sym:
		if k, ok := basicKindOf(tDst); ok {
			return i.symConv(k, x)
		}
		panic(engineAbort{fmt.Sprintf("conversion of symbolic %v to %v", tSrc, tDst)})
	case symstr:
		switch d := tDst.Underlying().(type) {
		case *types.Basic:
			if d.Kind() == types.String {
				return x
			}
		case *types.Slice:
			if b, ok := d.Elem().Underlying().(*types.Basic); ok && b.Kind() == types.Uint8 {
				out := make([]value, len(x))
				copy(out, x)
				return out
			}
		}
		panic(engineAbort{fmt.Sprintf("conversion of symbolic string to %v", tDst)})
	case []value:
		// []byte -> string with symbolic bytes
		if d, ok := tDst.Underlying().(*types.Basic); ok && d.Kind() == types.String {
			if s, ok := tSrc.Underlying().(*types.Slice); ok {
				if b, ok := s.Elem().Underlying().(*types.Basic); ok && b.Kind() == types.Uint8 {
					return mkstr(x)
				}
			}
		}
	}
	return conv(tDst, tSrc, x)
}

// ---------------------------------------------------------------------------

func (i *interpreter) coveredList() []string {
	var out []string
	for k := range i.covered {
		out = append(out, k)
	}
	sort.Strings(out)
	return out
}

func goStack() string {
	buf := make([]byte, 1<<16)
	n := runtime.Stack(buf, false)
	return string(buf[:n])
}

func (i *interpreter) tabBinop(op token.Token, x, y value) value {
	switch op {
	case token.EQL:
		return mkval(i.eqTerm(types.Typ[types.String], x, y), types.Bool)
	case token.NEQ:
		return mkval(i.tt.Not(i.eqTerm(types.Typ[types.String], x, y)), types.Bool)
	}
	panic(engineAbort{"unsupported operator " + op.String() + " on a table-selected string"})
}
