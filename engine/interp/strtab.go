package interp

// Symbolic selection from a concrete string table (e.g. a word list):
// T[i] with symbolic i stays symbolic as tabstr{T,i}. strings.Join over such
// values yields a symjoin; strings.Fields on it returns the parts again (the
// table is checked concretely to hold non-empty, whitespace-free, pairwise
// distinct strings). A map lookup keyed by a tabstr on a map with concrete
// keys is tabulated over the whole table.

import (
	"fmt"
	"go/types"
	"strings"
	"unicode"

	"golang.org/x/tools/go/ssa"
)

type strTable struct {
	elems    []string
	index    map[string]int
	distinct bool
	clean    bool // non-empty, no whitespace
}

type tabstr struct {
	tab *strTable
	idx *Term // index, width 64
}

type symjoin struct {
	parts []value // string | tabstr
	sep   string
}

func (i *interpreter) tableOf(x []value) *strTable {
	if len(x) < 16 {
		return nil
	}
	key := &x[0]
	if t, ok := i.tables[key]; ok && len(t.elems) == len(x) {
		return t
	}
	t := &strTable{index: map[string]int{}, distinct: true, clean: true}
	for k, e := range x {
		s, ok := e.(string)
		if !ok {
			return nil
		}
		t.elems = append(t.elems, s)
		if _, dup := t.index[s]; dup {
			t.distinct = false
		}
		t.index[s] = k
		if s == "" || strings.IndexFunc(s, unicode.IsSpace) >= 0 {
			t.clean = false
		}
	}
	if i.tables == nil {
		i.tables = map[*value]*strTable{}
	}
	i.tables[key] = t
	return t
}

// tableIndex handles x[idx] for symbolic idx over a string table; ok=false if
// x is not such a table.
func (i *interpreter) tableIndex(x []value, idx sym, where string) (value, bool) {
	t := i.tableOf(x)
	if t == nil {
		return nil, false
	}
	tt := i.tt
	inRange := tt.Bool(true)
	if idx.t.w >= 63 || uint64(len(x)) < uint64(1)<<uint(idx.t.w) {
		inRange = tt.Cmp("bvult", idx.t, tt.ConstU(idx.t.w, uint64(len(x))))
	}
	if !i.decide(inRange, where+": index in range") {
		panic(runtimeErr(fmt.Sprintf("runtime error: index out of range [symbolic] with length %d", len(x))))
	}
	return tabstr{t, tt.Zext(idx.t, 64)}, true
}

func (i *interpreter) tabEq(a tabstr, y value) *Term {
	tt := i.tt
	switch y := y.(type) {
	case tabstr:
		if y.tab == a.tab && a.tab.distinct {
			return tt.Eq(a.idx, y.idx)
		}
	case string:
		if a.tab.distinct {
			if k, ok := a.tab.index[y]; ok {
				return tt.Eq(a.idx, tt.ConstU(64, uint64(k)))
			}
			return tt.Bool(false)
		}
	}
	panic(engineAbort{"unsupported comparison of a table-selected string"})
}

func (i *interpreter) joinEq(a symjoin, y value) *Term {
	tt := i.tt
	b, ok := y.(symjoin)
	if !ok {
		panic(engineAbort{"unsupported comparison of a joined symbolic string with a concrete string"})
	}
	if a.sep != b.sep || len(a.parts) != len(b.parts) {
		// both are joins of whitespace-free parts: equal iff same parts
		if len(a.parts) != len(b.parts) && a.sep == b.sep {
			return tt.Bool(false)
		}
		panic(engineAbort{"unsupported comparison of joined symbolic strings"})
	}
	var cs []*Term
	for k := range a.parts {
		cs = append(cs, i.eqTerm(types.Typ[types.String], a.parts[k], b.parts[k]))
	}
	return tt.And(cs...)
}

func natStringsJoin(fr *frame, fn *ssa.Function, args []value) value {
	parts := args[0].([]value)
	sep := args[1].(string)
	symbolic := false
	for _, p := range parts {
		switch p.(type) {
		case string:
		case tabstr, symstr:
			symbolic = true
		default:
			panic(engineAbort{fmt.Sprintf("strings.Join over %T", p)})
		}
	}
	if !symbolic {
		ss := make([]string, len(parts))
		for k, p := range parts {
			ss[k] = p.(string)
		}
		return strings.Join(ss, sep)
	}
	cp := make([]value, len(parts))
	copy(cp, parts)
	return symjoin{cp, sep}
}

func natStringsFields(fr *frame, fn *ssa.Function, args []value) value {
	switch s := args[0].(type) {
	case string:
		var out []value
		for _, f := range strings.Fields(s) {
			out = append(out, f)
		}
		return out
	case symjoin:
		if s.sep == "" || strings.IndexFunc(s.sep, func(r rune) bool { return !unicode.IsSpace(r) }) >= 0 {
			panic(engineAbort{"strings.Fields of a symbolic join with a non-whitespace separator"})
		}
		var out []value
		for _, p := range s.parts {
			switch p := p.(type) {
			case tabstr:
				if !p.tab.clean {
					panic(engineAbort{"strings.Fields: table holds empty or whitespace-containing strings"})
				}
				out = append(out, p)
			case string:
				for _, f := range strings.Fields(p) {
					out = append(out, f)
				}
			case symstr:
				// every byte must be provably non-space ASCII
				i := fr.i
				for _, b := range p {
					t := i.tt.toTerm(b)
					ok := i.tt.And(i.tt.Cmp("bvult", i.tt.ConstU(8, 0x20), t), i.tt.Cmp("bvult", t, i.tt.ConstU(8, 0x7f)))
					if !i.decide(ok, "strings.Fields: symbolic byte is printable non-space ASCII") {
						panic(engineAbort{"strings.Fields over a symbolic string that may contain whitespace or non-ASCII bytes"})
					}
				}
				if len(p) > 0 {
					out = append(out, p)
				}
			}
		}
		return out
	}
	panic(engineAbort{fmt.Sprintf("strings.Fields of %T", args[0])})
}

// tabLookup: m[T[i]] for a map with concrete string keys.
func (i *interpreter) tabLookup(m *hashmap, k tabstr) (value, bool, bool) {
	if m == nil || m.nsym > 0 {
		return nil, false, false
	}
	identity, none := true, true
	for pos, s := range k.tab.elems {
		e, ok := m.idx[fmt.Sprintf("%q", s)]
		if !ok {
			identity = false
			continue
		}
		none = false
		if asU64, ok := e.value.(uint64); !ok || asU64 != uint64(pos) {
			if asI, ok2 := e.value.(int); !ok2 || asI != pos {
				identity = false
			}
		}
	}
	switch {
	case none:
		return nil, false, true
	case identity:
		// value type: take from any entry
		var sample value
		for _, e := range m.ents {
			if !e.deleted {
				sample = e.value
				break
			}
		}
		kd, _ := valueKind(sample)
		return mkval(i.tt.Zext(k.idx, 64), kd), true, true
	}
	return nil, false, false
}

// mapTable applies a pure string function to every element of a table.
func (i *interpreter) mapTable(t *strTable, name string, f func(string) string) *strTable {
	key := fmt.Sprintf("%p/%s", t, name)
	if i.derived == nil {
		i.derived = map[string]*strTable{}
	}
	if d, ok := i.derived[key]; ok {
		return d
	}
	d := &strTable{index: map[string]int{}, distinct: true, clean: true}
	same := true
	for k, s := range t.elems {
		r := f(s)
		if r != s {
			same = false
		}
		d.elems = append(d.elems, r)
		if _, dup := d.index[r]; dup {
			d.distinct = false
		}
		d.index[r] = k
		if r == "" || strings.IndexFunc(r, unicode.IsSpace) >= 0 {
			d.clean = false
		}
	}
	if same {
		d = t
	}
	i.derived[key] = d
	return d
}

func natStringMap(name string, f func(string) string, bytef func(i *interpreter, b value) value) nativeFn {
	return func(fr *frame, fn *ssa.Function, args []value) value {
		i := fr.i
		switch s := args[0].(type) {
		case string:
			return f(s)
		case tabstr:
			return tabstr{i.mapTable(s.tab, name, f), s.idx}
		case symstr:
			if bytef == nil {
				break
			}
			out := make([]value, len(s))
			for k, b := range s {
				// ASCII only: a byte >= 0x80 would start a multi-byte rune
				if sb, ok := b.(sym); ok {
					if i.decide(i.tt.Not(i.tt.Cmp("bvult", sb.t, i.tt.ConstU(8, 0x80))), name+": non-ASCII byte") {
						panic(engineAbort{name + " on a symbolic non-ASCII string"})
					}
				} else if b.(uint8) >= 0x80 {
					panic(engineAbort{name + " on a symbolic non-ASCII string"})
				}
				out[k] = bytef(i, b)
			}
			return mkstr(out)
		}
		panic(engineAbort{fmt.Sprintf("%s of %T", name, args[0])})
	}
}

func lowerByte(i *interpreter, b value) value {
	tt := i.tt
	t := tt.toTerm(b)
	isUp := tt.And(tt.Cmp("bvule", tt.ConstU(8, 'A'), t), tt.Cmp("bvule", t, tt.ConstU(8, 'Z')))
	return mkval(tt.Ite(isUp, tt.BV("bvadd", t, tt.ConstU(8, 32)), t), types.Uint8)
}

func upperByte(i *interpreter, b value) value {
	tt := i.tt
	t := tt.toTerm(b)
	isLo := tt.And(tt.Cmp("bvule", tt.ConstU(8, 'a'), t), tt.Cmp("bvule", t, tt.ConstU(8, 'z')))
	return mkval(tt.Ite(isLo, tt.BV("bvsub", t, tt.ConstU(8, 32)), t), types.Uint8)
}

func init() {
	natives["strings.ToLower"] = natStringMap("strings.ToLower", strings.ToLower, lowerByte)
	natives["strings.ToUpper"] = natStringMap("strings.ToUpper", strings.ToUpper, upperByte)
	natives["strings.TrimSpace"] = natStringMap("strings.TrimSpace", strings.TrimSpace, nil)
	natives["strings.Title"] = natStringMap("strings.Title", strings.Title, nil)
	natives["strings.Join"] = natStringsJoin
	natives["strings.Fields"] = natStringsFields
}

func init() {
	natives["internal/bytealg.IndexByteString"] = func(fr *frame, fn *ssa.Function, a []value) value {
		s, ok := a[0].(string)
		c, ok2 := a[1].(uint8)
		if !ok || !ok2 {
			panic(engineAbort{"bytealg.IndexByteString on symbolic data"})
		}
		return strings.IndexByte(s, c)
	}
	natives["internal/bytealg.IndexByte"] = func(fr *frame, fn *ssa.Function, a []value) value {
		bs := a[0].([]value)
		c, ok := a[1].(uint8)
		if !ok {
			panic(engineAbort{"bytealg.IndexByte with a symbolic byte"})
		}
		for k, b := range bs {
			x, ok := b.(uint8)
			if !ok {
				panic(engineAbort{"bytealg.IndexByte on symbolic data"})
			}
			if x == c {
				return k
			}
		}
		return -1
	}
	natives["internal/bytealg.CountString"] = func(fr *frame, fn *ssa.Function, a []value) value {
		return strings.Count(a[0].(string), string([]byte{a[1].(uint8)}))
	}
	natives["internal/bytealg.IndexString"] = func(fr *frame, fn *ssa.Function, a []value) value {
		return strings.Index(a[0].(string), a[1].(string))
	}
	natives["internal/stringslite.Index"] = func(fr *frame, fn *ssa.Function, a []value) value {
		return strings.Index(a[0].(string), a[1].(string))
	}
	natives["internal/stringslite.IndexByte"] = func(fr *frame, fn *ssa.Function, a []value) value {
		return strings.IndexByte(a[0].(string), a[1].(uint8))
	}
}

// strings.FieldsFunc over a join of table words: the splitting function is
// evaluated (concretely) on every rune of the separator and on every rune that
// occurs in the table. Fields that are exactly one word stay table-selected;
// a field into which separator runes were glued contains whitespace and so is
// no word of a clean table: it is returned as a sentinel string that equals no
// table word (only equality / lookup semantics are preserved for it).
func natStringsFieldsFunc(fr *frame, fn *ssa.Function, args []value) value {
	i := fr.i
	isSep := func(r rune) bool {
		res := call(i, fr, 0, args[1], []value{int32(r)})
		b, ok := res.(bool)
		if !ok {
			panic(engineAbort{"strings.FieldsFunc: splitting function with a symbolic result"})
		}
		return b
	}
	switch s := args[0].(type) {
	case string:
		var out []value
		start := -1
		for k, r := range s {
			if isSep(r) {
				if start >= 0 {
					out = append(out, s[start:k])
					start = -1
				}
			} else if start < 0 {
				start = k
			}
		}
		if start >= 0 {
			out = append(out, s[start:])
		}
		return out
	case symjoin:
		if s.sep == "" || strings.IndexFunc(s.sep, func(r rune) bool { return !unicode.IsSpace(r) }) >= 0 {
			panic(engineAbort{"strings.FieldsFunc of a symbolic join with a non-whitespace separator"})
		}
		checked := map[*strTable]bool{}
		var out []value
		var cur []value // parts and glued runes of the current field
		emit := func() {
			if len(cur) == 0 {
				return
			}
			allRunes := true
			var sb strings.Builder
			for _, c := range cur {
				if r, ok := c.(rune); ok {
					sb.WriteRune(r)
				} else {
					allRunes = false
				}
			}
			switch {
			case allRunes:
				out = append(out, sb.String())
			case len(cur) == 1:
				out = append(out, cur[0])
			default:
				out = append(out, fmt.Sprintf("\ufffdglued-field-%d\ufffd", len(out)))
			}
			cur = nil
		}
		for k, p := range s.parts {
			if k > 0 {
				for _, r := range s.sep {
					if isSep(r) {
						emit()
					} else {
						cur = append(cur, r)
					}
				}
			}
			switch p := p.(type) {
			case tabstr:
				if !p.tab.clean {
					panic(engineAbort{"strings.FieldsFunc: table holds empty or whitespace-containing strings"})
				}
				if !checked[p.tab] {
					checked[p.tab] = true
					seen := map[rune]bool{}
					for _, w := range p.tab.elems {
						for _, r := range w {
							if !seen[r] {
								seen[r] = true
								if isSep(r) {
									panic(engineAbort{"strings.FieldsFunc: the splitting function splits inside table words"})
								}
							}
						}
					}
				}
				cur = append(cur, p)
			case string:
				for _, r := range p {
					if isSep(r) {
						emit()
					} else {
						cur = append(cur, r)
					}
				}
			default:
				panic(engineAbort{fmt.Sprintf("strings.FieldsFunc: part %T", p)})
			}
		}
		emit()
		return out
	}
	panic(engineAbort{fmt.Sprintf("strings.FieldsFunc of %T", args[0])})
}

func init() { natives["strings.FieldsFunc"] = natStringsFieldsFunc }
