package interp

// Symbolic scalars and the symbolic extensions of binop/unop/conv/equals.

import (
	"fmt"
	"go/token"
	"go/types"
	"math/big"
)

// sym is a symbolic scalar (bool or integer) of Go basic kind k.
type sym struct {
	t *Term
	k types.BasicKind
}

// symstr is a string some of whose bytes are symbolic. Elements are uint8 or sym.
type symstr []value

func kindWidth(k types.BasicKind) int {
	switch k {
	case types.Bool:
		return 0
	case types.Int8, types.Uint8:
		return 8
	case types.Int16, types.Uint16:
		return 16
	case types.Int32, types.Uint32:
		return 32
	case types.Int, types.Uint, types.Int64, types.Uint64, types.Uintptr:
		return 64
	}
	panic(fmt.Sprintf("kindWidth: unsupported kind %v", k))
}

func kindSigned(k types.BasicKind) bool {
	switch k {
	case types.Int, types.Int8, types.Int16, types.Int32, types.Int64:
		return true
	}
	return false
}

func normKind(k types.BasicKind) types.BasicKind {
	switch k {
	case types.UntypedBool:
		return types.Bool
	case types.UntypedInt:
		return types.Int
	case types.UntypedRune:
		return types.Int32
	}
	return k
}

func basicKindOf(t types.Type) (types.BasicKind, bool) {
	if b, ok := t.Underlying().(*types.Basic); ok {
		return normKind(b.Kind()), true
	}
	return 0, false
}

// valueKind returns the kind of a concrete scalar or sym.
func valueKind(x value) (types.BasicKind, bool) {
	switch x := x.(type) {
	case sym:
		return x.k, true
	case bool:
		return types.Bool, true
	case int:
		return types.Int, true
	case int8:
		return types.Int8, true
	case int16:
		return types.Int16, true
	case int32:
		return types.Int32, true
	case int64:
		return types.Int64, true
	case uint:
		return types.Uint, true
	case uint8:
		return types.Uint8, true
	case uint16:
		return types.Uint16, true
	case uint32:
		return types.Uint32, true
	case uint64:
		return types.Uint64, true
	case uintptr:
		return types.Uintptr, true
	}
	return 0, false
}

func isSym(x value) bool { _, ok := x.(sym); return ok }

// toTerm converts a scalar value (concrete or symbolic) to a term.
func (tt *termTable) toTerm(x value) *Term {
	switch x := x.(type) {
	case sym:
		return x.t
	case bool:
		return tt.Bool(x)
	case int:
		return tt.Const(64, big.NewInt(int64(x)))
	case int8:
		return tt.Const(8, big.NewInt(int64(x)))
	case int16:
		return tt.Const(16, big.NewInt(int64(x)))
	case int32:
		return tt.Const(32, big.NewInt(int64(x)))
	case int64:
		return tt.Const(64, big.NewInt(x))
	case uint:
		return tt.ConstU(64, uint64(x))
	case uint8:
		return tt.ConstU(8, uint64(x))
	case uint16:
		return tt.ConstU(16, uint64(x))
	case uint32:
		return tt.ConstU(32, uint64(x))
	case uint64:
		return tt.ConstU(64, x)
	case uintptr:
		return tt.ConstU(64, uint64(x))
	}
	panic(engineAbort{fmt.Sprintf("toTerm: unsupported %T", x)})
}

// concreteOf converts a constant to a Go value of kind k.
func concreteOf(c *big.Int, k types.BasicKind) value {
	w := kindWidth(k)
	if k == types.Bool {
		return c.Sign() != 0
	}
	u := new(big.Int).And(c, mask(w)).Uint64()
	switch k {
	case types.Int:
		return int(int64(u))
	case types.Int8:
		return int8(u)
	case types.Int16:
		return int16(u)
	case types.Int32:
		return int32(u)
	case types.Int64:
		return int64(u)
	case types.Uint:
		return uint(u)
	case types.Uint8:
		return uint8(u)
	case types.Uint16:
		return uint16(u)
	case types.Uint32:
		return uint32(u)
	case types.Uint64:
		return u
	case types.Uintptr:
		return uintptr(u)
	}
	panic("concreteOf: kind")
}

// mkval wraps a term as a value of kind k, concretising constants.
func mkval(t *Term, k types.BasicKind) value {
	if t.IsConst() {
		return concreteOf(t.c, k)
	}
	return sym{t, k}
}

func (i *interpreter) symBinop(op token.Token, x, y value) value {
	tt := i.tt
	kx, okx := valueKind(x)
	ky, oky := valueKind(y)
	if !okx || !oky {
		panic(engineAbort{fmt.Sprintf("symbolic binop %s on %T,%T", op, x, y)})
	}
	a, b := tt.toTerm(x), tt.toTerm(y)
	signed := kindSigned(kx)
	switch op {
	case token.SHL, token.SHR:
		w := a.w
		var res *Term
		bop := "bvshl"
		if op == token.SHR {
			if signed {
				bop = "bvashr"
			} else {
				bop = "bvlshr"
			}
		}
		if b.w <= w {
			res = tt.BV(bop, a, tt.Zext(b, w))
		} else {
			big_ := tt.Not(tt.Cmp("bvult", b, tt.ConstU(b.w, uint64(w))))
			var over *Term
			if bop == "bvashr" {
				over = tt.BV("bvashr", a, tt.ConstU(w, uint64(w-1)))
			} else {
				over = tt.ConstU(w, 0)
			}
			res = tt.Ite(big_, over, tt.BV(bop, a, tt.Extract(w-1, 0, b)))
		}
		_ = ky
		return mkval(res, kx)
	}
	if kx != ky {
		panic(engineAbort{fmt.Sprintf("symbolic binop %s kinds differ %v %v", op, kx, ky)})
	}
	if kx == types.Bool {
		switch op {
		case token.EQL:
			return mkval(tt.Eq(a, b), types.Bool)
		case token.NEQ:
			return mkval(tt.Not(tt.Eq(a, b)), types.Bool)
		case token.AND, token.LAND:
			return mkval(tt.And(a, b), types.Bool)
		case token.OR, token.LOR:
			return mkval(tt.Or(a, b), types.Bool)
		}
		panic(engineAbort{"symbolic bool binop " + op.String()})
	}
	switch op {
	case token.ADD:
		return mkval(tt.BV("bvadd", a, b), kx)
	case token.SUB:
		return mkval(tt.BV("bvsub", a, b), kx)
	case token.MUL:
		return mkval(tt.BV("bvmul", a, b), kx)
	case token.QUO, token.REM:
		if i.decide(tt.Eq(b, tt.ConstU(b.w, 0)), "divide by zero") {
			panic(runtimeErr("runtime error: integer divide by zero"))
		}
		var bop string
		switch {
		case op == token.QUO && signed:
			bop = "bvsdiv"
		case op == token.QUO:
			bop = "bvudiv"
		case signed:
			bop = "bvsrem"
		default:
			bop = "bvurem"
		}
		return mkval(tt.BV(bop, a, b), kx)
	case token.AND:
		return mkval(tt.BV("bvand", a, b), kx)
	case token.OR:
		return mkval(tt.BV("bvor", a, b), kx)
	case token.XOR:
		return mkval(tt.BV("bvxor", a, b), kx)
	case token.AND_NOT:
		return mkval(tt.BV("bvand", a, tt.BVNot(b)), kx)
	case token.EQL:
		return mkval(tt.Eq(a, b), types.Bool)
	case token.NEQ:
		return mkval(tt.Not(tt.Eq(a, b)), types.Bool)
	case token.LSS:
		return mkval(tt.Cmp(cmpOp(signed, true), a, b), types.Bool)
	case token.LEQ:
		return mkval(tt.Cmp(cmpOp(signed, false), a, b), types.Bool)
	case token.GTR:
		return mkval(tt.Cmp(cmpOp(signed, true), b, a), types.Bool)
	case token.GEQ:
		return mkval(tt.Cmp(cmpOp(signed, false), b, a), types.Bool)
	}
	panic(engineAbort{"symbolic binop " + op.String()})
}

func cmpOp(signed, strict bool) string {
	switch {
	case signed && strict:
		return "bvslt"
	case signed:
		return "bvsle"
	case strict:
		return "bvult"
	}
	return "bvule"
}

// runtimeErr is a target-visible runtime panic raised by the engine.
type runtimeErr string

func (e runtimeErr) Error() string { return string(e) }
func (e runtimeErr) RuntimeError() {}

func (i *interpreter) symUnop(op token.Token, x sym) value {
	tt := i.tt
	switch op {
	case token.SUB:
		return mkval(tt.BVNeg(x.t), x.k)
	case token.XOR:
		return mkval(tt.BVNot(x.t), x.k)
	case token.NOT:
		return mkval(tt.Not(x.t), types.Bool)
	}
	panic(engineAbort{"symbolic unop " + op.String()})
}

// symConv converts a symbolic scalar to another basic kind.
func (i *interpreter) symConv(dst types.BasicKind, x sym) value {
	tt := i.tt
	switch dst {
	case types.Float32, types.Float64, types.String, types.Complex64, types.Complex128, types.UnsafePointer:
		// concretise
		c := i.concretize(x.t, "conversion of symbolic integer to "+types.Typ[dst].Name())
		cv := concreteOf(c, x.k)
		return conv(types.Typ[dst], types.Typ[x.k], cv)
	}
	dw := kindWidth(dst)
	if dw == 0 || x.k == types.Bool {
		panic(engineAbort{"symConv involving bool"})
	}
	var t *Term
	switch {
	case dw <= x.t.w:
		t = tt.Extract(dw-1, 0, x.t)
	case kindSigned(x.k):
		t = tt.Sext(x.t, dw)
	default:
		t = tt.Zext(x.t, dw)
	}
	return mkval(t, dst)
}

// hasSym reports whether v contains a symbolic scalar (shallow through
// arrays/structs/ifaces; does not follow pointers or slices).
func hasSym(v value) bool {
	switch v := v.(type) {
	case sym, symstr, tabstr, symjoin:
		return true
	case array:
		for _, e := range v {
			if hasSym(e) {
				return true
			}
		}
	case structure:
		for _, e := range v {
			if hasSym(e) {
				return true
			}
		}
	case iface:
		return hasSym(v.v)
	}
	return false
}

// eqTerm builds the Bool term for x == y at type t (Go comparison semantics).
func (i *interpreter) eqTerm(t types.Type, x, y value) *Term {
	tt := i.tt
	switch x := x.(type) {
	case sym:
		return tt.Eq(x.t, tt.toTerm(y))
	case symstr:
		return i.strEq(x, y)
	case tabstr:
		return i.tabEq(x, y)
	case symjoin:
		return i.joinEq(x, y)
	case string:
		switch ys := y.(type) {
		case symstr:
			return i.strEq(ys, x)
		case tabstr:
			return i.tabEq(ys, x)
		case symjoin:
			return i.joinEq(ys, x)
		}
		return tt.Bool(x == y.(string))
	case structure:
		ys := y.(structure)
		st := t.Underlying().(*types.Struct)
		var cs []*Term
		for k := 0; k < st.NumFields(); k++ {
			f := st.Field(k)
			if f.Name() == "_" {
				continue
			}
			c := i.eqTerm(f.Type(), x[k], ys[k])
			if c.IsFalse() {
				return c
			}
			cs = append(cs, c)
		}
		return tt.And(cs...)
	case array:
		ya := y.(array)
		et := t.Underlying().(*types.Array).Elem()
		// fast path: byte arrays -> one wide equality
		if b, ok := et.Underlying().(*types.Basic); ok && b.Kind() == types.Uint8 && len(x) > 0 {
			return tt.Eq(i.bytesTerm([]value(x)), i.bytesTerm([]value(ya)))
		}
		var cs []*Term
		for k := range x {
			c := i.eqTerm(et, x[k], ya[k])
			if c.IsFalse() {
				return c
			}
			cs = append(cs, c)
		}
		return tt.And(cs...)
	case iface:
		yi := y.(iface)
		if !sameType(x.t, yi.t) {
			return tt.Bool(false)
		}
		if x.t == nil {
			return tt.Bool(true)
		}
		return i.eqTerm(x.t, x.v, yi.v)
	}
	if _, ok := y.(sym); ok {
		return tt.Eq(tt.toTerm(x), y.(sym).t)
	}
	return tt.Bool(equals(t, x, y))
}

// bytesTerm concatenates byte values (uint8 or sym) into one bit-vector,
// first byte most significant.
func (i *interpreter) bytesTerm(bs []value) *Term {
	parts := make([]*Term, len(bs))
	for k, b := range bs {
		parts[k] = i.tt.toTerm(b)
		if parts[k].w != 8 {
			panic(engineAbort{"bytesTerm: non-byte element"})
		}
	}
	return i.tt.Concat(parts...)
}

func strBytes(s value) []value {
	switch s := s.(type) {
	case string:
		out := make([]value, len(s))
		for k := 0; k < len(s); k++ {
			out[k] = s[k]
		}
		return out
	case symstr:
		return []value(s)
	}
	panic(engineAbort{fmt.Sprintf("strBytes: %T", s)})
}

// mkstr normalises a byte list to string or symstr.
func mkstr(bs []value) value {
	buf := make([]byte, len(bs))
	for k, b := range bs {
		c, ok := b.(uint8)
		if !ok {
			cp := make(symstr, len(bs))
			copy(cp, bs)
			return cp
		}
		buf[k] = c
	}
	return string(buf)
}

func strLen(s value) int {
	switch s := s.(type) {
	case string:
		return len(s)
	case symstr:
		return len(s)
	}
	panic(engineAbort{fmt.Sprintf("strLen: %T", s)})
}

func (i *interpreter) strEq(x symstr, y value) *Term {
	yb := strBytes(y)
	if len(x) != len(yb) {
		return i.tt.Bool(false)
	}
	if len(x) == 0 {
		return i.tt.Bool(true)
	}
	return i.tt.Eq(i.bytesTerm([]value(x)), i.bytesTerm(yb))
}

// strCmp returns terms (lt, eq) for lexicographic comparison of byte lists.
func (i *interpreter) bytesCmp(x, y []value) (lt, eq *Term) {
	tt := i.tt
	// process from the end: cmp(x[k:],y[k:])
	n := len(x)
	if len(y) < n {
		n = len(y)
	}
	// base: remaining after common prefix
	switch {
	case len(x) < len(y):
		lt, eq = tt.Bool(true), tt.Bool(false)
	case len(x) == len(y):
		lt, eq = tt.Bool(false), tt.Bool(true)
	default:
		lt, eq = tt.Bool(false), tt.Bool(false)
	}
	for k := n - 1; k >= 0; k-- {
		a, b := tt.toTerm(x[k]), tt.toTerm(y[k])
		e := tt.Eq(a, b)
		l := tt.Cmp("bvult", a, b)
		lt = tt.Or(l, tt.And(e, lt))
		eq = tt.And(e, eq)
	}
	return
}

func (i *interpreter) strBinop(op token.Token, x, y value) value {
	switch op {
	case token.ADD:
		return mkstr(append(append([]value{}, strBytes(x)...), strBytes(y)...))
	case token.EQL:
		return mkval(i.eqTerm(types.Typ[types.String], x, y), types.Bool)
	case token.NEQ:
		return mkval(i.tt.Not(i.eqTerm(types.Typ[types.String], x, y)), types.Bool)
	}
	lt, eq := i.bytesCmp(strBytes(x), strBytes(y))
	tt := i.tt
	switch op {
	case token.LSS:
		return mkval(lt, types.Bool)
	case token.LEQ:
		return mkval(tt.Or(lt, eq), types.Bool)
	case token.GTR:
		return mkval(tt.Not(tt.Or(lt, eq)), types.Bool)
	case token.GEQ:
		return mkval(tt.Not(lt), types.Bool)
	}
	panic(engineAbort{"string binop " + op.String()})
}

// concreteInt turns an integer value into a concrete int64, forking if symbolic.
func (i *interpreter) concreteInt(x value, where string) int64 {
	if s, ok := x.(sym); ok {
		c := i.concretize(s.t, where)
		return asInt64(concreteOf(c, s.k))
	}
	return asInt64(x)
}

// boundedIndex resolves a possibly symbolic index against length n: one path
// for "out of range", one per feasible in-range value.
func (i *interpreter) boundedIndex(x value, n int, where string) int64 {
	s, ok := x.(sym)
	if !ok {
		return asInt64(x)
	}
	tt := i.tt
	w := s.t.w
	inRange := tt.Bool(true)
	if w >= 63 || uint64(n) < uint64(1)<<uint(w) { // else every w-bit index is in range
		inRange = tt.Cmp("bvult", s.t, tt.ConstU(w, uint64(n)))
	}
	if !i.decide(inRange, where+": index in range") {
		panic(runtimeErr(fmt.Sprintf("runtime error: index out of range [symbolic] with length %d", n)))
	}
	c := i.concretize(s.t, where)
	return asInt64(concreteOf(c, s.k))
}
