package interp

// Solver driver: one long-lived `z3 -in` (or compatible) process per
// interpreter. Per path: (reset), then definitions and path-condition
// assertions at level 0; each query runs inside (push)/(pop).

import (
	"bufio"
	"fmt"
	"io"
	"math/big"
	"os"
	"os/exec"
	"strings"
	"time"
)

type solver struct {
	cmd     *exec.Cmd
	in      io.WriteCloser
	out     *bufio.Reader
	argv    []string
	defined map[int]bool // term ids defined since last reset
	declV   map[string]bool
	declF   map[string]bool
	tt      *termTable
	log     io.Writer // optional transcript
	timeout int       // ms per query

	// statistics
	nSat, nUnsat, nUnknown int
	solverTime             time.Duration
	dumpDir                string // if set, final assertion queries are dumped here
	script                 strings.Builder
	keepScript             bool
	nDump                  int
	inQuery                bool
	base                   strings.Builder
	fallbackArgv           []string
	nMarker                int
	nFallback              int
	fallbackTime           time.Duration
}

func newSolver(tt *termTable, argv []string, timeoutMs int) *solver {
	s := &solver{tt: tt, argv: argv, timeout: timeoutMs}
	if f := os.Getenv("GOSX_SOLVER_LOG"); f != "" {
		if w, err := os.OpenFile(f, os.O_CREATE|os.O_WRONLY|os.O_APPEND, 0644); err == nil {
			s.log = w
		}
	}
	if d := os.Getenv("GOSX_DUMP_SLOW"); d != "" {
		s.dumpDir = d
		s.keepScript = true
	}
	s.start()
	return s
}

func (s *solver) start() {
	s.cmd = exec.Command(s.argv[0], s.argv[1:]...)
	var err error
	s.in, err = s.cmd.StdinPipe()
	if err != nil {
		panic(engineAbort{"solver: " + err.Error()})
	}
	o, err := s.cmd.StdoutPipe()
	if err != nil {
		panic(engineAbort{"solver: " + err.Error()})
	}
	s.cmd.Stderr = os.Stderr
	if err := s.cmd.Start(); err != nil {
		panic(engineAbort{"solver start: " + err.Error()})
	}
	s.out = bufio.NewReaderSize(o, 1<<20)
	s.resetState()
}

func (s *solver) close() {
	if s.cmd != nil {
		s.in.Close()
		s.cmd.Process.Kill()
		s.cmd.Wait()
		s.cmd = nil
	}
}

func (s *solver) send(line string) {
	if s.log != nil {
		fmt.Fprintln(s.log, line)
	}
	if s.keepScript {
		s.script.WriteString(line)
		s.script.WriteByte('\n')
	}
	if !s.inQuery && (strings.HasPrefix(line, "(declare-") || strings.HasPrefix(line, "(define-") || strings.HasPrefix(line, "(assert")) {
		s.base.WriteString(line)
		s.base.WriteByte('\n')
	}
	if _, err := io.WriteString(s.in, line+"\n"); err != nil {
		panic(engineAbort{"solver write: " + err.Error()})
	}
}

func (s *solver) readLine() string {
	l, err := s.out.ReadString('\n')
	if err != nil {
		panic(engineAbort{"solver read: " + err.Error()})
	}
	return strings.TrimSpace(l)
}

func (s *solver) resetState() {
	s.defined = map[int]bool{}
	s.declV = map[string]bool{}
	s.declF = map[string]bool{}
	s.script.Reset()
	s.base.Reset()
	s.send("(reset)")
	if strings.Contains(s.argv[0], "z3") {
		s.send("(set-option :print-success false)")
		s.send(fmt.Sprintf("(set-option :timeout %d)", s.timeout))
	} else {
		s.send("(set-logic ALL)")
	}
}

// define makes sure t (and everything below it) is known to the solver.
func (s *solver) define(t *Term) {
	if s.defined[t.id] {
		return
	}
	// iterative post-order to avoid deep recursion
	type item struct {
		t    *Term
		done bool
	}
	stack := []item{{t, false}}
	for len(stack) > 0 {
		it := stack[len(stack)-1]
		stack = stack[:len(stack)-1]
		if s.defined[it.t.id] {
			continue
		}
		if !it.done {
			stack = append(stack, item{it.t, true})
			for _, a := range it.t.args {
				if !s.defined[a.id] {
					stack = append(stack, item{a, false})
				}
			}
			continue
		}
		x := it.t
		s.defined[x.id] = true
		switch x.op {
		case "const":
		case "var":
			if !s.declV[x.name] {
				s.declV[x.name] = true
				s.send(fmt.Sprintf("(declare-const |%s| %s)", x.name, sortName(x.w)))
			}
		default:
			if x.op == "uf" && !s.declF[x.name] {
				s.declF[x.name] = true
				sig := s.tt.ufs[x.name]
				var as []string
				for _, w := range sig.argw {
					as = append(as, sortName(w))
				}
				s.send(fmt.Sprintf("(declare-fun |%s| (%s) %s)", x.name, strings.Join(as, " "), sortName(sig.retw)))
			}
			s.send(fmt.Sprintf("(define-fun t%d () %s %s)", x.id, sortName(x.w), body(x)))
		}
	}
}

// assert adds t at level 0 (path condition / axiom).
func (s *solver) assert(t *Term) {
	if t.IsTrue() {
		return
	}
	s.define(t)
	s.send("(assert " + ref(t) + ")")
}

type satResult int

const (
	resUnsat satResult = iota
	resSat
	resUnknown
)

func (r satResult) String() string { return [...]string{"unsat", "sat", "unknown"}[r] }

// check decides pc ∧ extra. When model is non-nil and the result is sat, values
// of the listed variables are read back.
func (s *solver) check(extra *Term, wantModel []*Term) (satResult, map[string]*big.Int) {
	if extra != nil {
		if extra.IsFalse() {
			return resUnsat, nil
		}
		s.define(extra)
	}
	for _, v := range wantModel {
		s.define(v)
	}
	start := time.Now()
	s.inQuery = true
	defer func() { s.inQuery = false }()
	s.send("(push 1)")
	if extra != nil && !extra.IsTrue() {
		s.send("(assert " + ref(extra) + ")")
	}
	s.send("(check-sat)")
	// every query is closed by an echo marker and the answer is whatever
	// verdict precedes that marker: stale output of an earlier query (seen once
	// in 400k queries after a timeout) can never be taken for this answer
	lines := s.readUntilMarker()
	ans := ""
	for _, l := range lines {
		if strings.HasPrefix(l, "(error") {
			s.solverTime += time.Since(start)
			s.send("(pop 1)")
			s.nUnknown++
			fmt.Fprintln(os.Stderr, "solver error:", l)
			return resUnknown, nil
		}
		switch l {
		case "sat", "unsat", "unknown", "timeout":
			ans = l
		}
	}
	var res satResult
	var model map[string]*big.Int
	switch ans {
	case "sat":
		res = resSat
		s.nSat++
		if len(wantModel) > 0 {
			model = s.getValues(wantModel)
		}
	case "unsat":
		res = resUnsat
		s.nUnsat++
	default:
		res = resUnknown
		if len(s.fallbackArgv) > 0 {
			s.send("(pop 1)")
			s.solverTime += time.Since(start)
			return s.fallback(extra, wantModel)
		}
		s.nUnknown++
	}
	s.send("(pop 1)")
	el := time.Since(start)
	s.solverTime += el
	if s.dumpDir != "" && (el > 2*time.Second || res == resUnknown) {
		s.nDump++
		if s.nDump <= 5 {
			os.WriteFile(fmt.Sprintf("%s/slow-%d-%d.smt2", s.dumpDir, os.Getpid(), s.nDump), []byte(s.script.String()), 0o644)
		}
	}
	return res, model
}

// readUntilMarker sends an echo marker and returns the output lines that
// precede its echo.
func (s *solver) readUntilMarker() []string {
	s.nMarker++
	mark := fmt.Sprintf("@@%d", s.nMarker)
	s.send("(echo \"" + mark + "\")")
	var lines []string
	for {
		l := s.readLine()
		if strings.Trim(l, "\"") == mark {
			return lines
		}
		if l != "" && l != "success" {
			lines = append(lines, l)
		}
	}
}

func (s *solver) getValues(vs []*Term) map[string]*big.Int {
	model := map[string]*big.Int{}
	const chunk = 200
	for i := 0; i < len(vs); i += chunk {
		j := i + chunk
		if j > len(vs) {
			j = len(vs)
		}
		var names []string
		for _, v := range vs[i:j] {
			names = append(names, ref(v))
		}
		s.send("(get-value (" + strings.Join(names, " ") + "))")
		var sb strings.Builder
		for _, l := range s.readUntilMarker() {
			if strings.HasPrefix(l, "(error") {
				panic(engineAbort{"solver get-value: " + l})
			}
			if sb.Len() == 0 && !strings.HasPrefix(l, "(") {
				continue // not part of the value list
			}
			sb.WriteString(l)
			sb.WriteByte(' ')
		}
		parseValues(sb.String(), vs[i:j], model)
	}
	return model
}

// parseValues parses "((name val) (name val) ...)" positionally.
func parseValues(txt string, vs []*Term, model map[string]*big.Int) {
	p := 0
	skipWS := func() {
		for p < len(txt) && (txt[p] == ' ' || txt[p] == '\n' || txt[p] == '\t' || txt[p] == '\r') {
			p++
		}
	}
	fail := func(why string) {
		panic(engineAbort{"solver get-value: " + why + " in " + txt})
	}
	skipWS()
	if p >= len(txt) || txt[p] != '(' {
		fail("no opening parenthesis")
	}
	p++
	for idx := 0; idx < len(vs); idx++ {
		skipWS()
		if p >= len(txt) || txt[p] != '(' {
			fail("pair expected")
		}
		p++
		skipWS()
		// name
		if txt[p] == '|' {
			q := strings.IndexByte(txt[p+1:], '|')
			if q < 0 {
				fail("unterminated name")
			}
			p += q + 2
		} else {
			for p < len(txt) && txt[p] != ' ' && txt[p] != '\n' {
				p++
			}
		}
		skipWS()
		// value
		start := p
		if txt[p] == '(' {
			depth := 0
			for p < len(txt) {
				if txt[p] == '(' {
					depth++
				} else if txt[p] == ')' {
					depth--
					if depth == 0 {
						p++
						break
					}
				}
				p++
			}
		} else {
			for p < len(txt) && txt[p] != ')' && txt[p] != ' ' && txt[p] != '\n' {
				p++
			}
		}
		tok := txt[start:p]
		var val *big.Int
		switch {
		case strings.HasPrefix(tok, "#x"):
			val, _ = new(big.Int).SetString(tok[2:], 16)
		case strings.HasPrefix(tok, "#b"):
			val, _ = new(big.Int).SetString(tok[2:], 2)
		case tok == "true":
			val = big.NewInt(1)
		case tok == "false":
			val = big.NewInt(0)
		case strings.HasPrefix(tok, "(_ bv"):
			f := strings.Fields(tok[5:])
			val, _ = new(big.Int).SetString(f[0], 10)
		}
		if val == nil {
			fail("cannot parse value " + tok)
		}
		model[vs[idx].name] = val
		skipWS()
		if p < len(txt) && txt[p] == ')' {
			p++
		}
	}
}

// fallback re-decides pc ∧ extra with a second solver (one-shot process) after
// the primary one answered unknown.
// thirdStage runs script (which ends in check-sat) in a fresh z3 with a
// 120 s limit, preferring the newer z3 when it is installed.
func (s *solver) thirdStage(script string, wantModel []*Term) (satResult, map[string]*big.Int) {
	script = strings.Replace(script, "(set-logic ALL)\n", "", 1)
	for _, bin := range []string{"z3-new", "z3"} {
		path, err := exec.LookPath(bin)
		if err != nil {
			continue
		}
		full := script
		if len(wantModel) > 0 {
			var names []string
			for _, v := range wantModel {
				names = append(names, ref(v))
			}
			full += "(get-value (" + strings.Join(names, " ") + "))\n"
		}
		cmd := exec.Command(path, "-T:120", "-in")
		cmd.Stdin = strings.NewReader(full)
		out, _ := cmd.Output()
		txt := strings.TrimSpace(string(out))
		if strings.HasPrefix(txt, "unsat") {
			return resUnsat, nil
		}
		if strings.HasPrefix(txt, "sat") {
			var model map[string]*big.Int
			if len(wantModel) > 0 {
				rest := txt[3:]
				if k := strings.Index(rest, "("); k >= 0 && !strings.Contains(rest, "(error") {
					model = map[string]*big.Int{}
					parseValues(rest[k:], wantModel, model)
				} else {
					continue
				}
			}
			return resSat, model
		}
	}
	return resUnknown, nil
}

func (s *solver) fallback(extra *Term, wantModel []*Term) (satResult, map[string]*big.Int) {
	start := time.Now()
	s.nFallback++
	var sb strings.Builder
	sb.WriteString("(set-logic ALL)\n(set-option :produce-models true)\n")
	sb.WriteString(s.base.String())
	if extra != nil && !extra.IsTrue() {
		sb.WriteString("(assert " + ref(extra) + ")\n")
	}
	sb.WriteString("(check-sat)\n")
	if s.dumpDir != "" {
		s.nDump++
		if s.nDump <= 3 {
			os.WriteFile(fmt.Sprintf("%s/fb-%d-%d.smt2", s.dumpDir, os.Getpid(), s.nDump), []byte(sb.String()), 0o644)
		}
	}
	cmd := exec.Command(s.fallbackArgv[0], s.fallbackArgv[1:]...)
	cmd.Stdin = strings.NewReader(sb.String())
	out, _ := cmd.Output()
	ans := strings.TrimSpace(string(out))
	if strings.Contains(ans, "(error") {
		fmt.Fprintln(os.Stderr, "fallback solver error:", ans)
		s.nUnknown++
		return resUnknown, nil
	}
	var res satResult
	switch {
	case strings.HasPrefix(ans, "unsat"):
		res = resUnsat
		s.nUnsat++
	case strings.HasPrefix(ans, "sat"):
		res = resSat
		s.nSat++
	default:
		// third stage: the same query, one-shot, in z3 with a long time limit
		// (under heavy machine load the 400 ms incremental limit and even the
		// first fallback can run out of wall-clock time on easy queries)
		r3, m3 := s.thirdStage(sb.String(), wantModel)
		s.fallbackTime += time.Since(start)
		s.solverTime += time.Since(start)
		switch r3 {
		case resSat:
			s.nSat++
		case resUnsat:
			s.nUnsat++
		default:
			s.nUnknown++
		}
		return r3, m3
	}
	var model map[string]*big.Int
	if res == resSat && len(wantModel) > 0 {
		var names []string
		for _, v := range wantModel {
			names = append(names, ref(v))
		}
		sb.WriteString("(get-value (" + strings.Join(names, " ") + "))\n")
		cmd := exec.Command(s.fallbackArgv[0], s.fallbackArgv[1:]...)
		cmd.Stdin = strings.NewReader(sb.String())
		out, _ := cmd.Output()
		txt := string(out)
		if k := strings.Index(txt, "("); k >= 0 && !strings.Contains(txt, "(error") {
			model = map[string]*big.Int{}
			parseValues(txt[k:], wantModel, model)
		} else {
			s.fallbackTime += time.Since(start)
			s.solverTime += time.Since(start)
			return resUnknown, nil
		}
	}
	s.fallbackTime += time.Since(start)
	s.solverTime += time.Since(start)
	return res, model
}
