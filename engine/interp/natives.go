package interp

// Native models of environment functions. Every entry here is part of the
// trusted base of a check and is reported in the evidence under "stubbed".

import (
	"crypto/sha256"
	"fmt"
	"go/types"
	"math/big"
	"strings"

	"golang.org/x/crypto/blake2b"
	"golang.org/x/tools/go/ssa"
)

const vapiPath = "go.sia.tech/coreutils/internal/vapi"

type prefixNative struct {
	prefix string
	fn     nativeFn
}

var natives = map[string]nativeFn{}
var prefixNatives []prefixNative

func init() {
	for k, v := range map[string]nativeFn{
		// harness API
		vapiPath + ".U64":       natNondet(types.Uint64),
		vapiPath + ".U32":       natNondet(types.Uint32),
		vapiPath + ".U16":       natNondet(types.Uint16),
		vapiPath + ".U8":        natNondet(types.Uint8),
		vapiPath + ".I64":       natNondet(types.Int64),
		vapiPath + ".Bool":      natNondet(types.Bool),
		vapiPath + ".Int":       natNondetInt,
		vapiPath + ".Search":    natSearch,
		vapiPath + ".UBits":     natUBits,
		vapiPath + ".SetField":  natSetField,
		vapiPath + ".Bytes32":   natBytes32,
		vapiPath + ".Assume":    natAssume,
		vapiPath + ".Assert":    natAssert,
		vapiPath + ".Reach":     natReach,
		vapiPath + ".Note":      natNote,
		vapiPath + ".Symbolic":  func(fr *frame, fn *ssa.Function, a []value) value { return true },
		vapiPath + ".HashBytes": natHashBytes("blake2b"),
		vapiPath + ".Ite64":     natIte,
		vapiPath + ".UF64":      natUF64,
		vapiPath + ".UFHash":    natUFHash,
		vapiPath + ".Held":      natHeld,
		vapiPath + ".Log":       natLog,
		vapiPath + ".Concrete":  natConcrete,

		// hashing
		"go.sia.tech/core/blake2b.Sum256":  natHashBytes("blake2b"),
		"golang.org/x/crypto/blake2b.Sum256": natHashBytes("blake2b"),
		"crypto/sha256.Sum256":             natHashBytes("sha256"),
		"go.sia.tech/core/blake2b.SumLeaf": natSumLeaf,
		"go.sia.tech/core/blake2b.SumPair": natSumPair,

		// sync
		"(*sync.Mutex).Lock":      natLock,
		"(*sync.Mutex).Unlock":    natUnlock,
		"(*sync.Mutex).TryLock":   natTryLock,
		"(*sync.RWMutex).Lock":    natLock,
		"(*sync.RWMutex).Unlock":  natUnlock,
		"(*sync.RWMutex).RLock":   natRLock,
		"(*sync.RWMutex).RUnlock": natRUnlock,
		"(*sync.Once).Do":         natOnceDo,
		"(*sync.Pool).Get":        natPoolGet,
		"(*sync.Pool).Put":        natNop,
		"(*sync.WaitGroup).Add":   natNop,
		"(*sync.WaitGroup).Done":  natNop,
		"(*sync.WaitGroup).Wait":  natNop,
		"(*sync.WaitGroup).Go":    natWGGo,

		// errors / fmt
		"fmt.Errorf":   natErrorf,
		"fmt.Sprintf":  natSprintf,
		"fmt.Sprint":   natSprintf,
		"fmt.Sprintln": natSprintf,
		"fmt.Println":  natNop,
		"fmt.Printf":   natNop,
		"fmt.Fprintf":  natNop,
		"fmt.Fprintln": natNop,
		"errors.Is":    natErrorsIs,
		"errors.As":    natErrorsAs,
		"errors.AsType": natErrorsAsType,
		"log.Println":  natNop,
		"log.Printf":   natNop,

		// bytes
		"bytes.Equal":   natBytesEqual,
		"bytes.Compare": natBytesCompare,
		"internal/bytealg.Equal":   natBytesEqual,
		"internal/bytealg.Compare": natBytesCompare,

		// sort
		"sort.Slice":       natSortSlice,
		"sort.SliceStable": natSortSlice,

		// runtime
		"time.runtimeNano":         func(fr *frame, fn *ssa.Function, a []value) value { return int64(1) },
		"time.runtimeNow":          func(fr *frame, fn *ssa.Function, a []value) value { return tuple{int64(0), int32(0), int64(1)} },
		"internal/reflectlite.TypeOf": func(fr *frame, fn *ssa.Function, a []value) value { panic(engineAbort{"reflectlite.TypeOf"}) },
		"runtime.KeepAlive":        natNop,
		"runtime.SetFinalizer":     natNop,
		"runtime.Gosched":          natNop,
		"internal/race.Enabled":    natNop,
		"internal/race.Acquire":    natNop,
		"internal/race.Release":    natNop,
		"internal/race.ReleaseMerge": natNop,
		"internal/race.Disable":    natNop,
		"internal/race.Enable":     natNop,
	} {
		natives[k] = v
	}
	prefixNatives = []prefixNative{
		{"(*go.uber.org/zap.Logger).", natZap},
		{"(*go.uber.org/zap.SugaredLogger).", natZap},
		{"go.uber.org/zap.", natZapField},
		{"sync/atomic.", natAtomic},
		{"(*sync/atomic.", natAtomicMethod},
	}
}

func natNop(fr *frame, fn *ssa.Function, args []value) value {
	return zeroResults(fn)
}

func zeroResults(fn *ssa.Function) value {
	res := fn.Signature.Results()
	switch res.Len() {
	case 0:
		return nil
	case 1:
		return zero(res.At(0).Type())
	}
	return zero(res)
}

// ---- nondeterministic inputs ------------------------------------------------

func (i *interpreter) freshName(name string) string {
	p := i.path
	n := p.nondetSeq[name]
	p.nondetSeq[name] = n + 1
	return fmt.Sprintf("%s#%d", name, n)
}

func (i *interpreter) nondet(name string, k types.BasicKind) value {
	w := kindWidth(k)
	full := i.freshName(name)
	if i.h != nil && i.h.concreteModel != nil {
		// concrete re-execution of a model
		v := new(big.Int)
		if s, ok := i.h.concreteModel[full]; ok {
			v.SetString(s, 10)
		}
		return concreteOf(v, k)
	}
	var t *Term
	if w == 0 {
		t = i.tt.Var(full, 0)
	} else {
		t = i.tt.Var(full, w)
	}
	i.path.nondets = append(i.path.nondets, t)
	return sym{t, k}
}

func natNondet(k types.BasicKind) nativeFn {
	return func(fr *frame, fn *ssa.Function, args []value) value {
		return fr.i.nondet(args[0].(string), k)
	}
}

// Int(name, lo, hi): an int in [lo,hi].
func natNondetInt(fr *frame, fn *ssa.Function, args []value) value {
	i := fr.i
	v := i.nondet(args[0].(string), types.Int)
	if s, ok := v.(sym); ok {
		tt := i.tt
		i.assume(tt.And(tt.Cmp("bvsle", tt.toTerm(args[1]), s.t), tt.Cmp("bvsle", s.t, tt.toTerm(args[2]))))
		// structural choices are concretised at once: one path per value
		c := i.concretize(s.t, "vapi.Int "+args[0].(string))
		return concreteOf(c, types.Int)
	}
	return v
}

// UBits(name, bits): a uint64 below 2^bits, represented structurally as a
// zero-extended narrow variable so that arithmetic on it is bit-blasted at
// the narrow width.
func natUBits(fr *frame, fn *ssa.Function, args []value) value {
	i := fr.i
	bits := args[1].(int)
	full := i.freshName(args[0].(string))
	if i.h != nil && i.h.concreteModel != nil {
		v := new(big.Int)
		if s, ok := i.h.concreteModel[full]; ok {
			v.SetString(s, 10)
		}
		return v.Uint64()
	}
	t := i.tt.Var(full, bits)
	i.path.nondets = append(i.path.nondets, t)
	return mkval(i.tt.Zext(t, 64), types.Uint64)
}

// SetField(ptr any, field string, val any)
func natSetField(fr *frame, fn *ssa.Function, args []value) value {
	p := args[0].(iface)
	name := args[1].(string)
	st, ok := mustDeref(p.t).Underlying().(*types.Struct)
	if !ok {
		panic(engineAbort{"vapi.SetField on a non-struct pointer"})
	}
	cell := p.v.(*value)
	for k := 0; k < st.NumFields(); k++ {
		if st.Field(k).Name() == name {
			v := args[2].(iface).v
			store(st.Field(k).Type(), &(*cell).(structure)[k], copyVal(v))
			return nil
		}
	}
	panic(engineAbort{"vapi.SetField: no field " + name})
}

// Search(name, n): a value in [0,n) (natively: a searchable replay variable).
func natSearch(fr *frame, fn *ssa.Function, args []value) value {
	i := fr.i
	v := i.nondet(args[0].(string), types.Uint64)
	if s, ok := v.(sym); ok {
		i.assume(i.tt.Cmp("bvult", s.t, i.tt.toTerm(args[1])))
	}
	return v
}

func natBytes32(fr *frame, fn *ssa.Function, args []value) value {
	i := fr.i
	full := i.freshName(args[0].(string))
	out := make(array, 32)
	if i.h != nil && i.h.concreteModel != nil {
		v := new(big.Int)
		if s, ok := i.h.concreteModel[full]; ok {
			v.SetString(s, 10)
		}
		b := v.FillBytes(make([]byte, 32))
		for k := range out {
			out[k] = b[k]
		}
		return out
	}
	t := i.tt.Var(full, 256)
	i.path.nondets = append(i.path.nondets, t)
	for k := 0; k < 32; k++ {
		out[k] = sym{i.tt.Extract(255-8*k, 248-8*k, t), types.Uint8}
	}
	return out
}

func (i *interpreter) assume(c *Term) {
	if c.IsTrue() {
		return
	}
	if c.IsFalse() {
		panic(pathEnd{"assume(false)"})
	}
	if len(i.path.trace) < len(i.path.prefix) {
		// replaying: the prefix is known feasible
		i.addPC(c)
		return
	}
	res, _ := i.solver.check(c, nil)
	switch res {
	case resUnsat:
		panic(pathEnd{"assumption infeasible"})
	case resUnknown:
		panic(engineAbort{"solver returned unknown on an assumption"})
	}
	i.addPC(c)
}

func natAssume(fr *frame, fn *ssa.Function, args []value) value {
	i := fr.i
	switch c := args[0].(type) {
	case bool:
		if !c {
			panic(pathEnd{"assume(false)"})
		}
	case sym:
		i.assume(c.t)
	}
	return nil
}

// assertFail terminates a path on which an assertion was violated.
type assertFail struct{ label string }

func natAssert(fr *frame, fn *ssa.Function, args []value) value {
	i := fr.i
	label := args[0].(string)
	i.stats.assertsChecked++
	i.h.assertSeen[label]++
	switch c := args[1].(type) {
	case bool:
		if !c {
			i.recordViolation(label, nil)
			panic(assertFail{label})
		}
	case sym:
		neg := i.tt.Not(c.t)
		res, _ := i.solver.check(neg, nil)
		switch res {
		case resUnknown:
			panic(engineAbort{"solver returned unknown on assertion " + label})
		case resSat:
			i.recordViolation(label, neg)
			panic(assertFail{label})
		}
		// holds on this path; make it available as a lemma
		i.addPC(c.t)
	}
	return nil
}

func natReach(fr *frame, fn *ssa.Function, args []value) value {
	i := fr.i
	label := args[0].(string)
	if !i.h.reached[label] {
		i.h.reached[label] = true
		if m := i.model(nil); m != nil {
			i.h.witness[label] = m
		}
	}
	return nil
}

func natNote(fr *frame, fn *ssa.Function, args []value) value {
	return nil
}

func natLog(fr *frame, fn *ssa.Function, args []value) value {
	if fr.i.verbose {
		d := toString(args[0])
		if e, ok := args[0].(iface); ok {
			d = panicString(fr.i, e)
		}
		fmt.Fprintln(fr.i.h.logw, "LOG:", d)
	}
	return nil
}

// Concrete(x uint64) uint64: forces a concrete value (forking over all).
func natConcrete(fr *frame, fn *ssa.Function, args []value) value {
	if s, ok := args[0].(sym); ok {
		c := fr.i.concretize(s.t, "vapi.Concrete")
		return concreteOf(c, s.k)
	}
	return args[0]
}

// Ite64(c bool, a, b uint64) uint64 without forking.
func natIte(fr *frame, fn *ssa.Function, args []value) value {
	tt := fr.i.tt
	return mkval(tt.Ite(tt.toTerm(args[0]), tt.toTerm(args[1]), tt.toTerm(args[2])), types.Uint64)
}

// UF64(name string, args ...uint64) uint64: uninterpreted function.
func natUF64(fr *frame, fn *ssa.Function, args []value) value {
	i := fr.i
	name := args[0].(string)
	var ts []*Term
	allConst := true
	for _, a := range args[1].([]value) {
		t := i.tt.toTerm(a)
		ts = append(ts, t)
		if !t.IsConst() {
			allConst = false
		}
	}
	_ = allConst
	return mkval(i.tt.UF("uf64!"+name+fmt.Sprint(len(ts)), 64, ts...), types.Uint64)
}

// UFHash(name string, parts ...[]byte) [32]byte: an injective-by-axiom hash
// of the concatenated parts under a named function.
func natUFHash(fr *frame, fn *ssa.Function, args []value) value {
	i := fr.i
	name := args[0].(string)
	var all []value
	for _, p := range args[1].([]value) {
		all = append(all, p.([]value)...)
	}
	return i.hashBytes("uf!"+name, all, false)
}

// ---- hashing ----------------------------------------------------------------

func realHash(kind string, b []byte) []byte {
	switch kind {
	case "blake2b":
		h := blake2b.Sum256(b)
		return h[:]
	case "sha256":
		h := sha256.Sum256(b)
		return h[:]
	}
	return nil
}

// hashBytes models a cryptographic hash: concrete preimages are hashed for
// real (when a real function is known); symbolic ones become H_n(preimage)
// with pairwise injectivity axioms against every other application of the
// same function on this path.
func (i *interpreter) hashBytes(kind string, bs []value, real bool) value {
	concrete := true
	for _, b := range bs {
		if _, ok := b.(uint8); !ok {
			concrete = false
			break
		}
	}
	out := make(array, 32)
	if concrete {
		buf := make([]byte, len(bs))
		for k, b := range bs {
			buf[k] = b.(uint8)
		}
		var h []byte
		if real {
			h = realHash(kind, buf)
		} else {
			// idealised functions on concrete inputs: a fixed pseudo-random
			// value (domain-separated real hash), so that concrete worlds stay concrete
			h = realHash("blake2b", append([]byte("gosx/"+kind+"/"), buf...))
		}
		for k := range out {
			out[k] = h[k]
		}
		i.path.hashApps = append(i.path.hashApps, &hashApp{fn: kind, nbytes: len(bs), preC: buf, out: i.tt.Const(256, new(big.Int).SetBytes(h))})
		return out
	}
	tt := i.tt
	var pre *Term
	if len(bs) > 0 {
		pre = i.bytesTerm(bs)
	} else {
		pre = tt.ConstU(8, 0) // placeholder for the empty preimage
	}
	name := fmt.Sprintf("H!%s!%d", kind, len(bs))
	dig := tt.UF(name, 256, pre)
	app := &hashApp{fn: kind, nbytes: len(bs), pre: pre, out: dig}
	// axioms against earlier applications of the same function
	seen := false
	for _, o := range i.path.hashApps {
		if o.fn != kind {
			continue
		}
		if o.out == dig {
			seen = true
			break
		}
		if o.nbytes != len(bs) {
			// different lengths never collide (idealised)
			i.solver.assert(tt.Not(tt.Eq(o.out, dig)))
			continue
		}
		op := o.pre
		if op == nil {
			if len(o.preC) == 0 {
				op = tt.ConstU(8, 0)
			} else {
				op = tt.Const(8*len(o.preC), new(big.Int).SetBytes(o.preC))
			}
		}
		// equal digests => equal preimages
		i.solver.assert(tt.Implies(tt.Eq(o.out, dig), tt.Eq(op, pre)))
	}
	if !seen {
		i.path.hashApps = append(i.path.hashApps, app)
		// idealisation: a digest / signature half is never all zero
		i.solver.assert(tt.Not(tt.Eq(dig, tt.ConstU(256, 0))))
	}
	for k := 0; k < 32; k++ {
		out[k] = mkval(tt.Extract(255-8*k, 248-8*k, dig), types.Uint8)
	}
	return out
}

func natHashBytes(kind string) nativeFn {
	return func(fr *frame, fn *ssa.Function, args []value) value {
		return fr.i.hashBytes(kind, args[0].([]value), true)
	}
}

func natSumLeaf(fr *frame, fn *ssa.Function, args []value) value {
	leaf := (*args[0].(*value)).(array)
	bs := append([]value{uint8(0)}, []value(leaf)...)
	return fr.i.hashBytes("blake2b", bs, true)
}

func natSumPair(fr *frame, fn *ssa.Function, args []value) value {
	bs := append([]value{uint8(1)}, []value(args[0].(array))...)
	bs = append(bs, []value(args[1].(array))...)
	return fr.i.hashBytes("blake2b", bs, true)
}

// ---- sync -------------------------------------------------------------------

func natLock(fr *frame, fn *ssa.Function, args []value) value {
	p := fr.i.path
	mu := args[0].(*value)
	if p.held[mu] != 0 {
		panic(assertFailDeadlock(fr.i, "Lock of a mutex that is already held (self-deadlock) in "+fr.i.callerName()))
	}
	p.held[mu] = -1
	return nil
}

func natTryLock(fr *frame, fn *ssa.Function, args []value) value {
	p := fr.i.path
	mu := args[0].(*value)
	if p.held[mu] != 0 {
		return false
	}
	p.held[mu] = -1
	return true
}

func natUnlock(fr *frame, fn *ssa.Function, args []value) value {
	p := fr.i.path
	mu := args[0].(*value)
	if p.held[mu] != -1 {
		panic(runtimeErr("fatal error: sync: unlock of unlocked mutex"))
	}
	p.held[mu] = 0
	return nil
}

func natRLock(fr *frame, fn *ssa.Function, args []value) value {
	p := fr.i.path
	mu := args[0].(*value)
	if p.held[mu] == -1 {
		panic(assertFailDeadlock(fr.i, "RLock of a write-locked mutex (self-deadlock) in "+fr.i.callerName()))
	}
	p.held[mu]++
	return nil
}

func natRUnlock(fr *frame, fn *ssa.Function, args []value) value {
	p := fr.i.path
	mu := args[0].(*value)
	if p.held[mu] <= 0 {
		panic(runtimeErr("fatal error: sync: RUnlock of unlocked RWMutex"))
	}
	p.held[mu]--
	return nil
}

func (i *interpreter) callerName() string {
	if n := len(i.stack); n > 0 {
		return i.stack[n-1].String()
	}
	return "?"
}

func assertFailDeadlock(i *interpreter, msg string) any {
	i.recordViolation("deadlock: "+msg, nil)
	return assertFail{"deadlock"}
}

// Held(mu *sync.Mutex) bool  (harness API)
func natHeld(fr *frame, fn *ssa.Function, args []value) value {
	return fr.i.path.held[args[0].(*value)] != 0
}

func natOnceDo(fr *frame, fn *ssa.Function, args []value) value {
	p := fr.i.path
	o := args[0].(*value)
	if p.held[o] != 0 {
		return nil
	}
	p.held[o] = 1 << 20
	call(fr.i, fr, 0, args[1], nil)
	return nil
}

func natPoolGet(fr *frame, fn *ssa.Function, args []value) value {
	pool := (*args[0].(*value)).(structure)
	// last field of sync.Pool is New func() any
	newFn := pool[len(pool)-1]
	switch f := newFn.(type) {
	case *ssa.Function:
		if f == nil {
			return iface{}
		}
	}
	return call(fr.i, fr, 0, newFn, nil)
}

func natWGGo(fr *frame, fn *ssa.Function, args []value) value {
	call(fr.i, fr, 0, args[1], nil)
	return nil
}

func natAtomic(fr *frame, fn *ssa.Function, args []value) value {
	name := fn.Name()
	i := fr.i
	switch {
	case strings.HasPrefix(name, "Load"):
		return *args[0].(*value)
	case strings.HasPrefix(name, "Store"):
		*args[0].(*value) = args[1]
		return nil
	case strings.HasPrefix(name, "Add"):
		p := args[0].(*value)
		*p = binop(i, tokenADD, fn.Signature.Params().At(1).Type(), *p, args[1])
		return *p
	case strings.HasPrefix(name, "Swap"):
		p := args[0].(*value)
		old := *p
		*p = args[1]
		return old
	case strings.HasPrefix(name, "CompareAndSwap"):
		p := args[0].(*value)
		t := fn.Signature.Params().At(1).Type()
		if i.decide(i.eqTerm(t, *p, args[1]), "atomic CAS") {
			*p = args[2]
			return true
		}
		return false
	case strings.HasPrefix(name, "And"), strings.HasPrefix(name, "Or"):
		p := args[0].(*value)
		old := *p
		op := tokenAND
		if strings.HasPrefix(name, "Or") {
			op = tokenOR
		}
		*p = binop(i, op, fn.Signature.Params().At(1).Type(), *p, args[1])
		return old
	}
	panic(engineAbort{"unsupported sync/atomic function " + name})
}

// methods of atomic.Int32/Int64/Uint32/Uint64/Bool/Pointer/Value: the value
// lives in field "v" (last field of the struct).
func natAtomicMethod(fr *frame, fn *ssa.Function, args []value) value {
	i := fr.i
	recv := args[0].(*value)
	st := (*recv).(structure)
	slot := &st[len(st)-1]
	recvT := mustDeref(fn.Signature.Recv().Type())
	isBool := strings.HasSuffix(recvT.String(), "atomic.Bool")
	name := fn.Name()
	toB := func(v value) value {
		if isBool {
			switch x := v.(type) {
			case uint32:
				return x != 0
			}
		}
		return v
	}
	fromB := func(v value) value {
		if isBool {
			if b, ok := v.(bool); ok {
				if b {
					return uint32(1)
				}
				return uint32(0)
			}
			panic(engineAbort{"symbolic atomic.Bool store"})
		}
		return v
	}
	if strings.HasSuffix(recvT.String(), "atomic.Value") || strings.Contains(recvT.String(), "atomic.Pointer") {
		// Pointer[T]: fields (_ , _, v unsafe.Pointer) — keep the *value directly
		switch name {
		case "Load":
			if *slot == nil || isZeroUnsafe(*slot) {
				return zero(fn.Signature.Results().At(0).Type())
			}
			return *slot
		case "Store":
			*slot = args[1]
			return nil
		case "Swap":
			old := *slot
			*slot = args[1]
			if old == nil || isZeroUnsafe(old) {
				return zero(fn.Signature.Results().At(0).Type())
			}
			return old
		case "CompareAndSwap":
			cur := *slot
			if cur == nil || isZeroUnsafe(cur) {
				cur = zero(fn.Signature.Params().At(0).Type())
			}
			if equals(fn.Signature.Params().At(0).Type(), cur, args[1]) {
				*slot = args[2]
				return true
			}
			return false
		}
		panic(engineAbort{"unsupported atomic method " + fn.String()})
	}
	switch name {
	case "Load":
		return toB(*slot)
	case "Store":
		*slot = fromB(args[1])
		return nil
	case "Add":
		*slot = binop(i, tokenADD, fn.Signature.Params().At(0).Type(), *slot, args[1])
		return *slot
	case "Swap":
		old := *slot
		*slot = fromB(args[1])
		return toB(old)
	case "CompareAndSwap":
		t := fn.Signature.Params().At(0).Type()
		if i.decide(i.eqTerm(t, toB(*slot), args[1]), "atomic CAS") {
			*slot = fromB(args[2])
			return true
		}
		return false
	}
	panic(engineAbort{"unsupported atomic method " + fn.String()})
}

func isZeroUnsafe(v value) bool {
	_, ok := v.(interface{ isUnsafeZero() })
	if ok {
		return true
	}
	return fmt.Sprintf("%T", v) == "unsafe.Pointer"
}

// ---- zap --------------------------------------------------------------------

func natZap(fr *frame, fn *ssa.Function, args []value) value {
	res := fn.Signature.Results()
	if res.Len() == 1 {
		if types.Identical(res.At(0).Type(), fn.Signature.Recv().Type()) {
			return args[0] // With, Named, ...
		}
		if fn.Name() == "Sugar" || fn.Name() == "Desugar" {
			// a fresh zero logger object of the right type
			v := zero(mustDeref(res.At(0).Type()))
			return &v
		}
	}
	if fn.Name() == "Fatal" || fn.Name() == "Panic" || fn.Name() == "DPanic" || fn.Name() == "Fatalf" || fn.Name() == "Panicf" {
		msg := "zap." + fn.Name()
		if len(args) > 1 {
			if s, ok := args[1].(string); ok {
				msg += ": " + s
			}
		}
		panic(targetPanic{iface{types.Typ[types.String], msg}})
	}
	return zeroResults(fn)
}

func natZapField(fr *frame, fn *ssa.Function, args []value) value {
	if fn.Name() == "NewNop" {
		v := zero(mustDeref(fn.Signature.Results().At(0).Type()))
		return &v
	}
	if fn.Signature.Recv() != nil {
		return zeroResults(fn)
	}
	return zeroResults(fn)
}

// ---- errors / fmt -----------------------------------------------------------

func (i *interpreter) vapiErrType() (ptr types.Type, elem types.Type) {
	pkg := i.prog.ImportedPackage(vapiPath)
	if pkg == nil {
		panic(engineAbort{"vapi package not loaded (needed for fmt.Errorf model)"})
	}
	t := pkg.Type("Err").Type()
	return types.NewPointer(t), t
}

func natSprintf(fr *frame, fn *ssa.Function, args []value) value {
	// formatting is not the subject of any property: opaque constant
	if len(args) > 0 {
		if s, ok := args[0].(string); ok && fn.Name() == "Sprintf" {
			return s
		}
	}
	return "<fmt>"
}

// fmt.Errorf: a *vapi.Err{Msg: format, Wraps: the error operands of %w verbs}.
func natErrorf(fr *frame, fn *ssa.Function, args []value) value {
	i := fr.i
	format := args[0].(string)
	var wraps []value
	ops := args[1].([]value)
	// walk verbs
	ai := 0
	for k := 0; k < len(format); k++ {
		if format[k] != '%' {
			continue
		}
		k++
		for k < len(format) && strings.ContainsRune("+-# 0123456789.*[]", rune(format[k])) {
			k++
		}
		if k >= len(format) {
			break
		}
		if format[k] == '%' {
			continue
		}
		if ai < len(ops) {
			if format[k] == 'w' {
				if e, ok := ops[ai].(iface); ok && e.t != nil {
					wraps = append(wraps, e)
				}
			}
			ai++
		}
	}
	ptrT, elemT := i.vapiErrType()
	st := zero(elemT).(structure)
	st[0] = format
	st[1] = wraps
	var det []string
	for _, o := range ops {
		d := toString(o)
		if e, ok := o.(iface); ok {
			d = panicString(i, e)
		}
		if len(d) > 300 {
			d = d[:300]
		}
		det = append(det, d)
	}
	st[2] = strings.Join(det, " ; ")
	var cell value = st
	return iface{t: ptrT, v: &cell}
}

// method calls an interpreted method by name on a dynamic value, if present.
func (i *interpreter) method(fr *frame, recv iface, name string) (*ssa.Function, bool) {
	if recv.t == nil {
		return nil, false
	}
	ms := i.prog.MethodSets.MethodSet(recv.t)
	for k := 0; k < ms.Len(); k++ {
		sel := ms.At(k)
		if sel.Obj().Name() == name {
			f := i.prog.MethodValue(sel)
			if f != nil {
				return f, true
			}
		}
	}
	return nil, false
}

func (i *interpreter) unwrap(fr *frame, e iface) []iface {
	f, ok := i.method(fr, e, "Unwrap")
	if !ok {
		return nil
	}
	res := call(i, fr, 0, f, []value{e.v})
	switch r := res.(type) {
	case iface:
		if r.t == nil {
			return nil
		}
		return []iface{r}
	case []value:
		var out []iface
		for _, x := range r {
			if xi, ok := x.(iface); ok && xi.t != nil {
				out = append(out, xi)
			}
		}
		return out
	}
	return nil
}

func natErrorsIs(fr *frame, fn *ssa.Function, args []value) value {
	i := fr.i
	err, target := args[0].(iface), args[1].(iface)
	if err.t == nil || target.t == nil {
		return err.t == nil && target.t == nil
	}
	var walk func(e iface, depth int) bool
	walk = func(e iface, depth int) bool {
		if depth > 50 {
			return false
		}
		if sameType(e.t, target.t) && types.Comparable(e.t) {
			if i.decide(i.eqTerm(e.t, e.v, target.v), "errors.Is") {
				return true
			}
		}
		if f, ok := i.method(fr, e, "Is"); ok && f.Signature.Params().Len() == 1 {
			if r, ok := call(i, fr, 0, f, []value{e.v, target}).(bool); ok && r {
				return true
			}
		}
		for _, u := range i.unwrap(fr, e) {
			if walk(u, depth+1) {
				return true
			}
		}
		return false
	}
	return walk(err, 0)
}

func (i *interpreter) errorsAs(fr *frame, err iface, targetT types.Type, set func(v value)) bool {
	var walk func(e iface, depth int) bool
	walk = func(e iface, depth int) bool {
		if e.t == nil || depth > 50 {
			return false
		}
		if it, ok := targetT.Underlying().(*types.Interface); ok {
			if types.Implements(e.t, it) {
				set(e)
				return true
			}
		} else if types.Identical(e.t, targetT) {
			set(e.v)
			return true
		}
		for _, u := range i.unwrap(fr, e) {
			if walk(u, depth+1) {
				return true
			}
		}
		return false
	}
	return walk(err, 0)
}

func natErrorsAs(fr *frame, fn *ssa.Function, args []value) value {
	err := args[0].(iface)
	tgt := args[1].(iface)
	if tgt.t == nil {
		panic(targetPanic{iface{types.Typ[types.String], "errors: target cannot be nil"}})
	}
	elemT := mustDeref(tgt.t)
	p := tgt.v.(*value)
	return fr.i.errorsAs(fr, err, elemT, func(v value) { store(elemT, p, v) })
}

func natErrorsAsType(fr *frame, fn *ssa.Function, args []value) value {
	err := args[0].(iface)
	T := fn.TypeArgs()[0]
	var out value = zero(T)
	ok := fr.i.errorsAs(fr, err, T, func(v value) { out = v })
	return tuple{out, ok}
}

// ---- bytes / sort -----------------------------------------------------------

func toByteList(v value) []value {
	switch v := v.(type) {
	case []value:
		return v
	case string, symstr:
		return strBytes(v)
	}
	panic(engineAbort{fmt.Sprintf("toByteList: %T", v)})
}

func natBytesEqual(fr *frame, fn *ssa.Function, args []value) value {
	i := fr.i
	a, b := toByteList(args[0]), toByteList(args[1])
	if len(a) != len(b) {
		return false
	}
	if len(a) == 0 {
		return true
	}
	return mkval(i.tt.Eq(i.bytesTerm(a), i.bytesTerm(b)), types.Bool)
}

func natBytesCompare(fr *frame, fn *ssa.Function, args []value) value {
	i := fr.i
	lt, eq := i.bytesCmp(toByteList(args[0]), toByteList(args[1]))
	tt := i.tt
	r := tt.Ite(lt, tt.Const(64, big.NewInt(-1)), tt.Ite(eq, tt.ConstU(64, 0), tt.ConstU(64, 1)))
	return mkval(r, types.Int)
}

// sort.Slice(x any, less func(i, j int) bool): insertion sort calling the
// real less closure.
func natSortSlice(fr *frame, fn *ssa.Function, args []value) value {
	i := fr.i
	s := args[0].(iface).v.([]value)
	less := args[1]
	for a := 1; a < len(s); a++ {
		for b := a; b > 0; b-- {
			r := call(i, fr, 0, less, []value{b, b - 1})
			var lt bool
			switch r := r.(type) {
			case bool:
				lt = r
			case sym:
				lt = i.decide(r.t, "sort.Slice less")
			}
			if !lt {
				break
			}
			s[b], s[b-1] = s[b-1], s[b]
		}
	}
	return nil
}
