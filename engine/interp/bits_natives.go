package interp

// math/bits.Add64/Sub64/Mul64 with encodings that the term simplifier can
// narrow: carries of zero-extended small operands fold to constants.

import (
	"go/types"

	"golang.org/x/tools/go/ssa"
)

func init() {
	natives["math/bits.Add64"] = natBitsAdd64
	natives["math/bits.Sub64"] = natBitsSub64
	natives["math/bits.Mul64"] = natBitsMul64
}

func natBitsAdd64(fr *frame, fn *ssa.Function, args []value) value {
	tt := fr.i.tt
	x, y, c := tt.toTerm(args[0]), tt.toTerm(args[1]), tt.toTerm(args[2])
	s := tt.sum(65, tt.Zext(x, 65), tt.Zext(y, 65), tt.Zext(c, 65))
	sum := tt.Extract(63, 0, s)
	carry := tt.Zext(tt.Extract(64, 64, s), 64)
	return tuple{mkval(sum, types.Uint64), mkval(carry, types.Uint64)}
}

func natBitsSub64(fr *frame, fn *ssa.Function, args []value) value {
	tt := fr.i.tt
	x, y, b := tt.toTerm(args[0]), tt.toTerm(args[1]), tt.toTerm(args[2])
	// borrow out iff x < y + b over the integers
	rhs := tt.sum(65, tt.Zext(y, 65), tt.Zext(b, 65))
	borrow := tt.Ite(tt.Cmp("bvult", tt.Zext(x, 65), rhs), tt.ConstU(64, 1), tt.ConstU(64, 0))
	diff := tt.BV("bvsub", tt.BV("bvsub", x, y), b)
	return tuple{mkval(diff, types.Uint64), mkval(borrow, types.Uint64)}
}

func natBitsMul64(fr *frame, fn *ssa.Function, args []value) value {
	tt := fr.i.tt
	x, y := tt.toTerm(args[0]), tt.toTerm(args[1])
	p := tt.BV("bvmul", tt.Zext(x, 128), tt.Zext(y, 128))
	hi := tt.Extract(127, 64, p)
	lo := tt.Extract(63, 0, p)
	return tuple{mkval(hi, types.Uint64), mkval(lo, types.Uint64)}
}
