package interp

// math/bits.Add64/Sub64/Mul64 with encodings that the term simplifier can
// narrow: carries of zero-extended small operands fold to constants.

import (
	"go/types"
	"math/big"

	"golang.org/x/tools/go/ssa"
)

func init() {
	natives["math/bits.Add64"] = natBitsAdd64
	natives["math/bits.Sub64"] = natBitsSub64
	natives["math/bits.Mul64"] = natBitsMul64
}

func natBitsAdd64(fr *frame, fn *ssa.Function, args []value) value {
	tt := fr.i.tt
	x, y, c := tt.toTerm(args[0]), tt.toTerm(args[1]), tt.toTerm(args[2])
	s := tt.sum(65, tt.Zext(x, 65), tt.Zext(y, 65), tt.Zext(c, 65))
	sum := tt.Extract(63, 0, s)
	carry := tt.Zext(tt.Extract(64, 64, s), 64)
	return tuple{mkval(sum, types.Uint64), mkval(carry, types.Uint64)}
}

func natBitsSub64(fr *frame, fn *ssa.Function, args []value) value {
	tt := fr.i.tt
	x, y, b := tt.toTerm(args[0]), tt.toTerm(args[1]), tt.toTerm(args[2])
	// borrow out iff x < y + b over the integers
	rhs := tt.sum(65, tt.Zext(y, 65), tt.Zext(b, 65))
	borrow := tt.Ite(tt.Cmp("bvult", tt.Zext(x, 65), rhs), tt.ConstU(64, 1), tt.ConstU(64, 0))
	diff := tt.BV("bvsub", tt.BV("bvsub", x, y), b)
	return tuple{mkval(diff, types.Uint64), mkval(borrow, types.Uint64)}
}

func natBitsMul64(fr *frame, fn *ssa.Function, args []value) value {
	tt := fr.i.tt
	x, y := tt.toTerm(args[0]), tt.toTerm(args[1])
	p := tt.BV("bvmul", tt.Zext(x, 128), tt.Zext(y, 128))
	hi := tt.Extract(127, 64, p)
	lo := tt.Extract(63, 0, p)
	return tuple{mkval(hi, types.Uint64), mkval(lo, types.Uint64)}
}

func init() {
	// formatting of amounts is never the subject of a property
	natives["(go.sia.tech/core/types.Currency).String"] = func(fr *frame, fn *ssa.Function, a []value) value { return "<currency>" }
	natives["(go.sia.tech/core/types.Currency).ExactString"] = func(fr *frame, fn *ssa.Function, a []value) value { return "<currency>" }
	natives["(go.sia.tech/core/types.Currency).Cmp"] = natCurrencyCmp
}

// Currency.Cmp without forking: -1/0/1 as an if-then-else term.
func natCurrencyCmp(fr *frame, fn *ssa.Function, args []value) value {
	tt := fr.i.tt
	c, v := args[0].(structure), args[1].(structure)
	clo, chi := tt.toTerm(c[0]), tt.toTerm(c[1])
	vlo, vhi := tt.toTerm(v[0]), tt.toTerm(v[1])
	m1 := tt.Const(64, bigMinus1)
	one, zero := tt.ConstU(64, 1), tt.ConstU(64, 0)
	lowCmp := tt.Ite(tt.Cmp("bvult", clo, vlo), m1, tt.Ite(tt.Cmp("bvult", vlo, clo), one, zero))
	r := tt.Ite(tt.Cmp("bvult", chi, vhi), m1, tt.Ite(tt.Cmp("bvult", vhi, chi), one, lowCmp))
	return mkval(r, types.Int)
}

var bigMinus1 = big.NewInt(-1)
