package interp

// Idealised signatures, key derivation and randomness.

import (
	"go/types"

	"golang.org/x/tools/go/ssa"
)

func init() {
	natives["go.sia.tech/core/types.NewPrivateKeyFromSeed"] = natNewPrivateKeyFromSeed
	natives["(go.sia.tech/core/types.PrivateKey).SignHash"] = natSignHash
	natives["(go.sia.tech/core/types.PublicKey).VerifyHash"] = natVerifyHash
	natives["go.sia.tech/core/types.GeneratePrivateKey"] = natGeneratePrivateKey
	natives["lukechampine.com/frand.Read"] = natFrandRead
	natives["lukechampine.com/frand.Bytes"] = natFrandBytes
	natives["lukechampine.com/frand.Intn"] = natFrandIntn
	natives["lukechampine.com/frand.Uint64n"] = natFrandUint64n
	natives["lukechampine.com/frand.Entropy256"] = natFrandEntropy(32)
	natives["lukechampine.com/frand.Entropy128"] = natFrandEntropy(16)
	natives["lukechampine.com/frand.Shuffle"] = natNop // identity permutation (order not a subject)
}

// PrivateKey = seed(32) || pub(32), pub = PUB(seed) (injective, idealised).
func natNewPrivateKeyFromSeed(fr *frame, fn *ssa.Function, args []value) value {
	seed := args[0].([]value)
	if len(seed) != 32 {
		panic(targetPanic{iface{types.Typ[types.String], "ed25519: bad seed length"}})
	}
	pub := fr.i.hashBytes("ed25519pub", seed, false).(array)
	out := make([]value, 64)
	copy(out, seed)
	copy(out[32:], []value(pub))
	return out
}

func natGeneratePrivateKey(fr *frame, fn *ssa.Function, args []value) value {
	seed := make([]value, 32)
	for k := range seed {
		seed[k] = fr.i.nondet("keyseed", types.Uint8)
	}
	return natNewPrivateKeyFromSeed(fr, fn, []value{seed})
}

func (i *interpreter) sigOf(pub []value, h []value) array {
	pre := append(append([]value{}, pub...), h...)
	a := i.hashBytes("ed25519sigA", pre, false).(array)
	b := i.hashBytes("ed25519sigB", pre, false).(array)
	out := make(array, 64)
	copy(out, a)
	copy(out[32:], b)
	return out
}

// SignHash(priv, h) = SIG(pub(priv), h)
func natSignHash(fr *frame, fn *ssa.Function, args []value) value {
	priv := args[0].([]value)
	h := args[1].(array)
	if len(priv) != 64 {
		panic(targetPanic{iface{types.Typ[types.String], "ed25519: bad private key length"}})
	}
	return fr.i.sigOf(priv[32:], []value(h))
}

// VerifyHash(pk, h, s) <=> s == SIG(pk, h)
func natVerifyHash(fr *frame, fn *ssa.Function, args []value) value {
	i := fr.i
	pk := args[0].(array)
	h := args[1].(array)
	s := args[2].(array)
	want := i.sigOf([]value(pk), []value(h))
	return mkval(i.tt.Eq(i.bytesTerm([]value(s)), i.bytesTerm([]value(want))), types.Bool)
}

func natFrandRead(fr *frame, fn *ssa.Function, args []value) value {
	b := args[0].([]value)
	for k := range b {
		b[k] = fr.i.nondet("frand", types.Uint8)
	}
	return len(b)
}

func natFrandBytes(fr *frame, fn *ssa.Function, args []value) value {
	n := fr.i.concreteInt(args[0], "frand.Bytes")
	b := make([]value, n)
	for k := range b {
		b[k] = fr.i.nondet("frand", types.Uint8)
	}
	return b
}

func natFrandIntn(fr *frame, fn *ssa.Function, args []value) value {
	i := fr.i
	v := i.nondet("frand.intn", types.Int)
	if s, ok := v.(sym); ok {
		n := i.tt.toTerm(args[0])
		i.assume(i.tt.And(i.tt.Cmp("bvsle", i.tt.ConstU(64, 0), s.t), i.tt.Cmp("bvslt", s.t, n)))
	}
	return v
}

func natFrandUint64n(fr *frame, fn *ssa.Function, args []value) value {
	i := fr.i
	v := i.nondet("frand.uint64n", types.Uint64)
	if s, ok := v.(sym); ok {
		i.assume(i.tt.Cmp("bvult", s.t, i.tt.toTerm(args[0])))
	}
	return v
}

func natFrandEntropy(n int) nativeFn {
	return func(fr *frame, fn *ssa.Function, args []value) value {
		out := make(array, n)
		for k := range out {
			out[k] = fr.i.nondet("frand", types.Uint8)
		}
		return out
	}
}
