package interp

// Idealised signatures, key derivation and randomness.

import (
	"go/types"

	"golang.org/x/tools/go/ssa"
)

func init() {
	natives["go.sia.tech/core/rhp/v2.MetaRoot"] = natMetaRoot
	natives["go.sia.tech/core/rhp/v4.CachedSectorSubtrees"] = natCachedSectorSubtrees
	natives["go.sia.tech/core/blake2b.SumNodes"] = natSumNodes
	natives["go.sia.tech/core/blake2b.SumLeaves"] = natSumLeaves
	natives["go.sia.tech/core/types.NewPrivateKeyFromSeed"] = natNewPrivateKeyFromSeed
	natives["(go.sia.tech/core/types.PrivateKey).SignHash"] = natSignHash
	natives["(go.sia.tech/core/types.PublicKey).VerifyHash"] = natVerifyHash
	natives["go.sia.tech/core/types.GeneratePrivateKey"] = natGeneratePrivateKey
	natives[vapiPath+".ForgedSig"] = natForgedSig
	natives["lukechampine.com/frand.Read"] = natFrandRead
	natives["lukechampine.com/frand.Bytes"] = natFrandBytes
	natives["lukechampine.com/frand.Intn"] = natFrandIntn
	natives["lukechampine.com/frand.Uint64n"] = natFrandUint64n
	natives["lukechampine.com/frand.Entropy256"] = natFrandEntropy(32)
	natives["lukechampine.com/frand.Entropy128"] = natFrandEntropy(16)
	natives["lukechampine.com/frand.Shuffle"] = natNop // identity permutation (order not a subject)
}

// PrivateKey = seed(32) || pub(32), pub = PUB(seed) (injective, idealised).
func natNewPrivateKeyFromSeed(fr *frame, fn *ssa.Function, args []value) value {
	seed := args[0].([]value)
	if len(seed) != 32 {
		panic(targetPanic{iface{types.Typ[types.String], "ed25519: bad seed length"}})
	}
	pub := fr.i.hashBytes("ed25519pub", seed, false).(array)
	out := make([]value, 64)
	copy(out, seed)
	copy(out[32:], []value(pub))
	return out
}

func natGeneratePrivateKey(fr *frame, fn *ssa.Function, args []value) value {
	seed := make([]value, 32)
	for k := range seed {
		seed[k] = fr.i.nondet("keyseed", types.Uint8)
	}
	return natNewPrivateKeyFromSeed(fr, fn, []value{seed})
}

func (i *interpreter) sigOf(pub []value, h []value) array {
	pre := append(append([]value{}, pub...), h...)
	a := i.hashBytes("ed25519sigA", pre, false).(array)
	b := i.hashBytes("ed25519sigB", pre, false).(array)
	out := make(array, 64)
	copy(out, a)
	copy(out[32:], b)
	return out
}

// SignHash(priv, h) = SIG(pub(priv), h)
func natSignHash(fr *frame, fn *ssa.Function, args []value) value {
	priv := args[0].([]value)
	h := args[1].(array)
	if len(priv) != 64 {
		panic(targetPanic{iface{types.Typ[types.String], "ed25519: bad private key length"}})
	}
	return fr.i.sigOf(priv[32:], []value(h))
}

// VerifyHash(pk, h, s) <=> s == SIG(pk, h)
func natVerifyHash(fr *frame, fn *ssa.Function, args []value) value {
	i := fr.i
	pk := args[0].(array)
	h := args[1].(array)
	s := args[2].(array)
	if i.path.forged[i.bytesTerm([]value(s))] {
		return false // made up by a party that holds no signing key for it
	}
	want := i.sigOf([]value(pk), []value(h))
	return mkval(i.tt.Eq(i.bytesTerm([]value(s)), i.bytesTerm([]value(want))), types.Bool)
}

func natFrandRead(fr *frame, fn *ssa.Function, args []value) value {
	b := args[0].([]value)
	for k := range b {
		b[k] = fr.i.nondet("frand", types.Uint8)
	}
	return len(b)
}

func natFrandBytes(fr *frame, fn *ssa.Function, args []value) value {
	n := fr.i.concreteInt(args[0], "frand.Bytes")
	b := make([]value, n)
	for k := range b {
		b[k] = fr.i.nondet("frand", types.Uint8)
	}
	return b
}

func natFrandIntn(fr *frame, fn *ssa.Function, args []value) value {
	i := fr.i
	v := i.nondet("frand.intn", types.Int)
	if s, ok := v.(sym); ok {
		n := i.tt.toTerm(args[0])
		i.assume(i.tt.And(i.tt.Cmp("bvsle", i.tt.ConstU(64, 0), s.t), i.tt.Cmp("bvslt", s.t, n)))
	}
	return v
}

func natFrandUint64n(fr *frame, fn *ssa.Function, args []value) value {
	i := fr.i
	v := i.nondet("frand.uint64n", types.Uint64)
	if s, ok := v.(sym); ok {
		i.assume(i.tt.Cmp("bvult", s.t, i.tt.toTerm(args[0])))
	}
	return v
}

// Entropy128/256: arbitrary bytes; two draws are assumed to differ (the
// chance that they do not is 2^-128 or less).
func natFrandEntropy(n int) nativeFn {
	return func(fr *frame, fn *ssa.Function, args []value) value {
		i := fr.i
		out := make(array, n)
		for k := range out {
			out[k] = i.nondet("frand", types.Uint8)
		}
		if t := i.bytesTerm([]value(out)); t != nil && !t.IsConst() {
			for _, prev := range i.path.entropy {
				if prev.w == t.w {
					i.assume(i.tt.Not(i.tt.Eq(prev, t)))
				}
			}
			i.path.entropy = append(i.path.entropy, t)
		}
		return out
	}
}

// MetaRoot: the Merkle root of a list of node hashes (left subtrees are the
// largest complete ones). core computes it with a layout-dependent
// accumulator (adjacent struct fields reinterpreted through unsafe), which the
// boxed heap cannot express; this is the same function written recursively.
func (i *interpreter) metaRoot(roots []value) array {
	switch len(roots) {
	case 0:
		return zero(types.NewArray(types.Typ[types.Uint8], 32)).(array)
	case 1:
		return copyVal(roots[0]).(array)
	}
	split := 1
	for split*2 < len(roots) {
		split *= 2
	}
	l, r := i.metaRoot(roots[:split]), i.metaRoot(roots[split:])
	bs := append([]value{uint8(1)}, []value(l)...)
	bs = append(bs, []value(r)...)
	return i.hashBytes("blake2b", bs, true).(array)
}

func natMetaRoot(fr *frame, fn *ssa.Function, args []value) value {
	return fr.i.metaRoot(args[0].([]value))
}

// SumNodes(outs *[4][32]byte, nodes *[8][32]byte): outs[k] = SumPair(nodes[2k], nodes[2k+1])
func natSumNodes(fr *frame, fn *ssa.Function, args []value) value {
	outs := (*args[0].(*value)).(array)
	nodes := (*args[1].(*value)).(array)
	for k := 0; k < 4; k++ {
		bs := append([]value{uint8(1)}, []value(nodes[2*k].(array))...)
		bs = append(bs, []value(nodes[2*k+1].(array))...)
		outs[k] = fr.i.hashBytes("blake2b", bs, true)
	}
	return nil
}

// SumLeaves(outs *[4][32]byte, leaves *[4][64]byte): outs[k] = SumLeaf(leaves[k])
func natSumLeaves(fr *frame, fn *ssa.Function, args []value) value {
	outs := (*args[0].(*value)).(array)
	leaves := (*args[1].(*value)).(array)
	for k := 0; k < 4; k++ {
		bs := append([]value{uint8(0)}, []value(leaves[k].(array))...)
		outs[k] = fr.i.hashBytes("blake2b", bs, true)
	}
	return nil
}

// ForgedSig(name): 64 arbitrary bytes that verify under no key for no message
// (Dolev-Yao: signatures cannot be produced without the key).
func natForgedSig(fr *frame, fn *ssa.Function, args []value) value {
	i := fr.i
	a := natBytes32(fr, fn, []value{args[0].(string) + ".a"}).(array)
	b := natBytes32(fr, fn, []value{args[0].(string) + ".b"}).(array)
	out := make(array, 64)
	copy(out, a)
	copy(out[32:], b)
	if i.path.forged == nil {
		i.path.forged = map[*Term]bool{}
	}
	i.path.forged[i.bytesTerm([]value(out))] = true
	return out
}

// CachedSectorSubtrees: idealised as one injective hash of the first 256 bytes
// of the sector (harness sectors are at most that long; the rest is zero).
func natCachedSectorSubtrees(fr *frame, fn *ssa.Function, args []value) value {
	sector := (*args[0].(*value)).(array)
	h := fr.i.hashBytes("sector-subtrees", []value(sector[:256]), false)
	return []value{h}
}

// ---- core rhp/v2 sectorAccumulator ------------------------------------------
//
// The real type packs subtree roots into adjacent arrays and reinterprets them
// through unsafe casts (layout-dependent). Its four methods are replaced by a
// plain Merkle accumulator with the same results: leaves are hashed with the
// leaf prefix, equal-height subtrees are merged, the root folds what is left
// right to left. State is kept per receiver for the current path.

type saNode struct {
	height int
	h      array
}

func (i *interpreter) saInsert(sa *value, h array, height int) {
	st := i.path.sectorAcc[sa]
	for len(st) > 0 && st[len(st)-1].height == height {
		top := st[len(st)-1]
		st = st[:len(st)-1]
		bs := append([]value{uint8(1)}, []value(top.h)...)
		bs = append(bs, []value(h)...)
		h = i.hashBytes("blake2b", bs, true).(array)
		height++
	}
	i.path.sectorAcc[sa] = append(st, saNode{height, h})
}

func init() {
	const recv = "(*go.sia.tech/core/rhp/v2.sectorAccumulator)."
	natives[recv+"reset"] = func(fr *frame, fn *ssa.Function, args []value) value {
		if fr.i.path.sectorAcc == nil {
			fr.i.path.sectorAcc = map[*value][]saNode{}
		}
		delete(fr.i.path.sectorAcc, args[0].(*value))
		return nil
	}
	natives[recv+"appendLeaves"] = func(fr *frame, fn *ssa.Function, args []value) value {
		i := fr.i
		if i.path.sectorAcc == nil {
			i.path.sectorAcc = map[*value][]saNode{}
		}
		leaves := args[1].([]value)
		if len(leaves)%64 != 0 {
			panic(targetPanic{iface{t: types.Typ[types.String], v: "appendLeaves: illegal input size"}})
		}
		for k := 0; k < len(leaves); k += 64 {
			bs := append([]value{uint8(0)}, leaves[k:k+64]...)
			i.saInsert(args[0].(*value), i.hashBytes("blake2b", bs, true).(array), 0)
		}
		return nil
	}
	natives[recv+"appendNode"] = func(fr *frame, fn *ssa.Function, args []value) value {
		i := fr.i
		if i.path.sectorAcc == nil {
			i.path.sectorAcc = map[*value][]saNode{}
		}
		i.saInsert(args[0].(*value), copyVal(args[1]).(array), 0)
		return nil
	}
	natives[recv+"root"] = func(fr *frame, fn *ssa.Function, args []value) value {
		i := fr.i
		st := i.path.sectorAcc[args[0].(*value)]
		if len(st) == 0 {
			return zero(fn.Signature.Results().At(0).Type())
		}
		root := st[len(st)-1].h
		for k := len(st) - 2; k >= 0; k-- {
			bs := append([]value{uint8(1)}, []value(st[k].h)...)
			bs = append(bs, []value(root)...)
			root = i.hashBytes("blake2b", bs, true).(array)
		}
		return copyVal(root)
	}
}
