package interp

// Path exploration by re-execution: a path is its vector of decisions.

import (
	"fmt"
	"math/big"
	"sort"
)

// engineAbort is raised for conditions that make the current obligation
// inconclusive (unsupported construct, solver unknown, budget exceeded). It is
// never visible to the target program's recover().
type engineAbort struct{ reason string }

func (e engineAbort) Error() string { return "engine abort: " + e.reason }

// pathEnd silently terminates the current path (Assume(false), infeasible).
type pathEnd struct{ why string }

type choice struct {
	// kind "b": boolean decision on a term; taken = outcome; altOpen = other
	// outcome feasible and still to be explored.
	// kind "v": concretisation candidate value (val) paired with a following
	// boolean decision; kept so that re-execution proposes the same value.
	kind    byte
	taken   bool
	altOpen bool
	val     *big.Int
	where   string
	n       int // kind "n": free n-way choice (no solver involved)
}

type pathState struct {
	prefix []choice // decisions to replay
	trace  []choice // decisions taken in this run
	pc     []*Term
	// nondet leaves created on this path, by name
	nondets   []*Term
	nondetSeq map[string]int
	hashApps  []*hashApp
	held      map[*value]int // mutex model
	instrs    int64
	reached   map[string]bool
	callLog   []string
	forged    map[*Term]bool
	sectorAcc map[*value][]saNode
	entropy   []*Term // frand.Entropy* draws (pairwise distinct)
	watched   map[*value]string // cells of watched package-level variables
	writes    []string          // writes to watched cells: "variable in function"
}

type hashApp struct {
	fn     string
	nbytes int
	pre    *Term // concatenated preimage (nil if concrete)
	preC   []byte
	out    *Term // digest (const if concrete)
}

func (i *interpreter) newPath(prefix []choice) {
	i.path = &pathState{prefix: prefix, nondetSeq: map[string]int{}, held: map[*value]int{}, reached: map[string]bool{}}
	i.solver.resetState()
}

func (i *interpreter) addPC(t *Term) {
	if t.IsTrue() {
		return
	}
	i.path.pc = append(i.path.pc, t)
	i.solver.assert(t)
}

// decide returns a concrete outcome for the Bool term cond, forking the
// exploration when both outcomes are feasible under the path condition.
func (i *interpreter) decide(cond *Term, where string) bool {
	if cond.w != 0 {
		panic("decide on non-Bool")
	}
	if cond.IsConst() {
		return cond.IsTrue()
	}
	p := i.path
	k := len(p.trace)
	if k < len(p.prefix) {
		c := p.prefix[k]
		if c.kind != 'b' {
			panic(engineAbort{fmt.Sprintf("replay divergence at decision %d (%s): expected kind %c", k, where, c.kind)})
		}
		p.trace = append(p.trace, choice{kind: 'b', taken: c.taken, altOpen: c.altOpen, where: where})
		if c.taken {
			i.addPC(cond)
		} else {
			i.addPC(i.tt.Not(cond))
		}
		return c.taken
	}
	i.stats.decisions++
	rT, _ := i.solver.check(cond, nil)
	var rF satResult
	if rT == resUnsat {
		rF = resSat // pc is satisfiable by invariant, so the other side must be
	} else {
		rF, _ = i.solver.check(i.tt.Not(cond), nil)
	}
	if rT == resUnknown || rF == resUnknown {
		panic(engineAbort{"solver returned unknown at decision " + where})
	}
	switch {
	case rT == resSat && rF == resSat:
		p.trace = append(p.trace, choice{kind: 'b', taken: true, altOpen: true, where: where})
		i.addPC(cond)
		i.stats.forks++
		if i.forkSites == nil {
			i.forkSites = map[string]int{}
		}
		i.forkSites[where]++
		return true
	case rT == resSat:
		p.trace = append(p.trace, choice{kind: 'b', taken: true, where: where})
		i.addPC(cond)
		return true
	case rF == resSat:
		p.trace = append(p.trace, choice{kind: 'b', taken: false, where: where})
		i.addPC(i.tt.Not(cond))
		return false
	}
	panic(pathEnd{"infeasible path condition"})
}

// concretize returns a concrete value for t, forking over all feasible values.
func (i *interpreter) concretize(t *Term, where string) *big.Int {
	if t.IsConst() {
		return t.c
	}
	if t.w == 0 {
		if i.decide(t, where) {
			return big.NewInt(1)
		}
		return big.NewInt(0)
	}
	p := i.path
	for n := 0; ; n++ {
		if n > i.maxConcretize {
			panic(engineAbort{fmt.Sprintf("concretisation of %s at %s exceeds %d values", t, where, i.maxConcretize)})
		}
		var cand *big.Int
		k := len(p.trace)
		if k < len(p.prefix) {
			c := p.prefix[k]
			if c.kind != 'v' {
				panic(engineAbort{fmt.Sprintf("replay divergence at decision %d (%s): expected value", k, where)})
			}
			cand = c.val
		} else {
			// ask the solver for a value
			aux := i.tt.Var(fmt.Sprintf("concretize!%d", t.id), t.w)
			res, m := i.solver.check(i.tt.Eq(aux, t), []*Term{aux})
			if res == resUnknown {
				panic(engineAbort{"solver returned unknown while concretising at " + where})
			}
			if res == resUnsat {
				panic(pathEnd{"infeasible"})
			}
			cand = m[aux.name]
		}
		p.trace = append(p.trace, choice{kind: 'v', val: cand, where: where})
		if i.decide(i.tt.Eq(t, i.tt.Const(t.w, cand)), where) {
			return cand
		}
	}
}

// nextPrefix computes the decision prefix of the next unexplored path (DFS),
// or nil when exploration is complete.
func nextPrefix(trace []choice) []choice {
	for k := len(trace) - 1; k >= 0; k-- {
		c := trace[k]
		if c.kind == 'b' && c.altOpen {
			np := make([]choice, k+1)
			copy(np, trace[:k])
			np[k] = choice{kind: 'b', taken: !c.taken, altOpen: false, where: c.where}
			// earlier entries must not be re-forked
			for j := 0; j < k; j++ {
				np[j].altOpen = trace[j].altOpen
			}
			return np
		}
	}
	return nil
}

// model returns the values of all nondet leaves under pc ∧ extra.
func (i *interpreter) model(extra *Term) map[string]string {
	vars := append([]*Term{}, i.path.nondets...)
	res, m := i.solver.check(extra, vars)
	if res != resSat {
		return nil
	}
	out := map[string]string{}
	for k, v := range m {
		out[k] = v.Text(10)
	}
	return out
}

func sortedKeys(m map[string]bool) []string {
	var ks []string
	for k := range m {
		ks = append(ks, k)
	}
	sort.Strings(ks)
	return ks
}
