package interp

// Concrete models of the pure address helpers of package net (whose package
// initialiser, and net/netip's, are not run): the real functions are called on
// concrete arguments.

import (
	"net"

	"golang.org/x/tools/go/ssa"
)

func bytesOf(i *interpreter, v value, what string) []byte {
	if v == nil {
		return nil
	}
	vs, ok := v.([]value)
	if !ok || vs == nil {
		return nil
	}
	out := make([]byte, len(vs))
	for k, b := range vs {
		c, ok := b.(uint8)
		if !ok {
			panic(engineAbort{"unsupported: symbolic bytes in " + what})
		}
		out[k] = c
	}
	return out
}

func valuesOf(b []byte) value {
	if b == nil {
		return []value(nil)
	}
	out := make([]value, len(b))
	for k, c := range b {
		out[k] = c
	}
	return out
}

func concreteString(v value, what string) string {
	s, ok := v.(string)
	if !ok {
		panic(engineAbort{"unsupported: symbolic string in " + what})
	}
	return s
}

func init() {
	natives["net.ParseIP"] = func(fr *frame, fn *ssa.Function, a []value) value {
		return valuesOf(net.ParseIP(concreteString(a[0], "net.ParseIP")))
	}
	natives["(net.IP).To4"] = func(fr *frame, fn *ssa.Function, a []value) value {
		return valuesOf(net.IP(bytesOf(fr.i, a[0], "IP.To4")).To4())
	}
	natives["(net.IP).To16"] = func(fr *frame, fn *ssa.Function, a []value) value {
		return valuesOf(net.IP(bytesOf(fr.i, a[0], "IP.To16")).To16())
	}
	natives["(net.IP).String"] = func(fr *frame, fn *ssa.Function, a []value) value {
		return net.IP(bytesOf(fr.i, a[0], "IP.String")).String()
	}
	natives["(net.IP).Mask"] = func(fr *frame, fn *ssa.Function, a []value) value {
		return valuesOf(net.IP(bytesOf(fr.i, a[0], "IP.Mask")).Mask(net.IPMask(bytesOf(fr.i, a[1], "IP.Mask"))))
	}
	natives["(net.IP).Equal"] = func(fr *frame, fn *ssa.Function, a []value) value {
		return net.IP(bytesOf(fr.i, a[0], "IP.Equal")).Equal(net.IP(bytesOf(fr.i, a[1], "IP.Equal")))
	}
	natives["net.CIDRMask"] = func(fr *frame, fn *ssa.Function, a []value) value {
		return valuesOf(net.CIDRMask(int(fr.i.concreteInt(a[0], "CIDRMask")), int(fr.i.concreteInt(a[1], "CIDRMask"))))
	}
	natives["(*net.IPNet).String"] = func(fr *frame, fn *ssa.Function, a []value) value {
		st := (*a[0].(*value)).(structure)
		n := net.IPNet{IP: net.IP(bytesOf(fr.i, st[0], "IPNet.String")), Mask: net.IPMask(bytesOf(fr.i, st[1], "IPNet.String"))}
		return n.String()
	}
	natives["net.SplitHostPort"] = func(fr *frame, fn *ssa.Function, a []value) value {
		h, p, err := net.SplitHostPort(concreteString(a[0], "net.SplitHostPort"))
		var e value = iface{}
		if err != nil {
			e = fr.i.makeError(err.Error())
		}
		return tuple{h, p, e}
	}
	natives["net.JoinHostPort"] = func(fr *frame, fn *ssa.Function, a []value) value {
		return net.JoinHostPort(concreteString(a[0], "net.JoinHostPort"), concreteString(a[1], "net.JoinHostPort"))
	}
}

// makeError builds an error value (the harness library's *vapi.Err) with msg.
func (i *interpreter) makeError(msg string) value {
	ptrT, elemT := i.vapiErrType()
	st := zero(elemT).(structure)
	st[0] = msg
	st[1] = []value(nil)
	st[2] = ""
	var cell value = st
	return iface{t: ptrT, v: &cell}
}
