package interp

// sync / time / context-facing natives under the cooperative scheduler.
// With the scheduler off the single-goroutine models of natives.go apply.

import (
	"go/types"
	"strings"

	"golang.org/x/tools/go/ssa"
)

func init() {
	over := map[string]nativeFn{
		"(*sync.Mutex).Lock":       schedOr(natLockS, natLock),
		"(*sync.Mutex).Unlock":     schedOr(natUnlockS, natUnlock),
		"(*sync.Mutex).TryLock":    schedOr(natTryLockS, natTryLock),
		"(*sync.RWMutex).Lock":     schedOr(natLockS, natLock),
		"(*sync.RWMutex).Unlock":   schedOr(natUnlockS, natUnlock),
		"(*sync.RWMutex).RLock":    schedOr(natRLockS, natRLock),
		"(*sync.RWMutex).RUnlock":  schedOr(natRUnlockS, natRUnlock),
		"(*sync.Once).Do":          schedOr(natOnceDoS, natOnceDo),
		"(*sync.WaitGroup).Add":    schedOr(natWGAddS, natNop),
		"(*sync.WaitGroup).Done":   schedOr(natWGDoneS, natNop),
		"(*sync.WaitGroup).Wait":   schedOr(natWGWaitS, natNop),
		"(*sync.WaitGroup).Go":     schedOr(natWGGoS, natWGGo),
		"(*sync.Cond).Wait":        natCondWait,
		"(*sync.Cond).Signal":      natCondSignal,
		"(*sync.Cond).Broadcast":   natCondBroadcast,
		"runtime.Gosched":          natYield,
		"time.Sleep":               natYield,
		"time.NewTimer":            natNewTimer(false, false),
		"time.NewTicker":           natNewTimer(true, false),
		"time.After":               natNewTimer(false, true),
		"time.Tick":                natNewTimer(true, true),
		"time.AfterFunc":           natAfterFunc,
		"(*time.Timer).Stop":       natTimerStop,
		"(*time.Timer).Reset":      natTimerReset,
		"(*time.Ticker).Stop":      natTimerStop,
		"(*time.Ticker).Reset":     natTimerReset,
		vapiPath + ".Yield":        natYield,
		vapiPath + ".WaitIdle":     natWaitIdle,
		vapiPath + ".Goroutines":   natGoroutines,
		vapiPath + ".Blocked":      natBlocked,
		vapiPath + ".WaitStuck":    natWaitStuck,
	}
	for k, v := range over {
		natives[k] = v
	}
}

func schedOr(s, plain nativeFn) nativeFn {
	return func(fr *frame, fn *ssa.Function, args []value) value {
		if fr.i.sched != nil && fr.i.sched.on {
			return s(fr, fn, args)
		}
		return plain(fr, fn, args)
	}
}

func natYield(fr *frame, fn *ssa.Function, args []value) value {
	fr.i.schedPoint("yield")
	return zeroResults(fn)
}

// WaitIdle() int: parks the caller until no other goroutine can run; returns
// the number of other goroutines that are still alive (blocked).
func natWaitIdle(fr *frame, fn *ssa.Function, args []value) value {
	i := fr.i
	s := i.sched
	if s == nil || !s.on {
		return 0
	}
	me := s.cur
	i.blockUntil(func() bool {
		for _, g := range s.gs {
			if g == me || g.done || g.watcher {
				continue
			}
			if g.timer != nil && !g.timer.fired {
				continue // a timer that never fires is not pending work
			}
			if g.runnable() {
				return false
			}
		}
		return true
	}, "vapi.WaitIdle")
	n := 0
	for _, g := range s.gs {
		if g != me && !g.done && !g.watcher && !(g.timer != nil && !g.timer.fired) {
			n++
		}
	}
	return n
}

// WaitStuck(): parks the caller (a harness watcher, not counted as program
// work) until the timer budget is exhausted with every goroutine blocked.
func natWaitStuck(fr *frame, fn *ssa.Function, args []value) value {
	i := fr.i
	s := i.sched
	if s == nil || !s.on {
		return zeroResults(fn)
	}
	me := s.cur
	me.watcher = true
	s.watchers++
	i.blockUntil(func() bool { return s.stuck }, "vapi.WaitStuck")
	s.watchers--
	return zeroResults(fn)
}

func natGoroutines(fr *frame, fn *ssa.Function, args []value) value {
	s := fr.i.sched
	n := 0
	for _, g := range s.gs {
		if g != s.cur && !g.done && !g.watcher && !(g.timer != nil && !g.timer.fired) {
			n++
		}
	}
	return n
}

// Blocked() string: description of what the other live goroutines wait for.
func natBlocked(fr *frame, fn *ssa.Function, args []value) value {
	s := fr.i.sched
	var sb strings.Builder
	for _, g := range s.gs {
		if g != s.cur && !g.done && !g.watcher && !(g.timer != nil && !g.timer.fired) {
			sb.WriteString("[" + g.name + ": " + g.why + "]")
		}
	}
	return sb.String()
}

// ---- mutexes ----------------------------------------------------------------

func natLockS(fr *frame, fn *ssa.Function, args []value) value {
	i := fr.i
	p := i.path
	mu := args[0].(*value)
	i.schedPoint("Lock")
	i.blockUntil(func() bool { return p.held[mu] == 0 }, "Lock in "+i.callerName())
	p.held[mu] = -1
	i.sched.owner[mu] = i.sched.cur
	return nil
}

func natTryLockS(fr *frame, fn *ssa.Function, args []value) value {
	fr.i.schedPoint("TryLock")
	return natTryLock(fr, fn, args)
}

func natUnlockS(fr *frame, fn *ssa.Function, args []value) value {
	natUnlock(fr, fn, args)
	delete(fr.i.sched.owner, args[0].(*value))
	return nil
}

func natRLockS(fr *frame, fn *ssa.Function, args []value) value {
	i := fr.i
	p := i.path
	mu := args[0].(*value)
	i.schedPoint("RLock")
	i.blockUntil(func() bool { return p.held[mu] != -1 }, "RLock in "+i.callerName())
	p.held[mu]++
	return nil
}

func natRUnlockS(fr *frame, fn *ssa.Function, args []value) value {
	return natRUnlock(fr, fn, args)
}

// ---- Once -------------------------------------------------------------------

func natOnceDoS(fr *frame, fn *ssa.Function, args []value) value {
	i := fr.i
	s := i.sched
	o := args[0].(*value)
	i.schedPoint("Once.Do")
	switch s.once[o] {
	case 2:
		return nil
	case 1:
		i.blockUntil(func() bool { return s.once[o] == 2 }, "Once.Do in "+i.callerName())
		return nil
	}
	s.once[o] = 1
	func() {
		defer func() { s.once[o] = 2 }()
		call(i, fr, 0, args[1], nil)
	}()
	return nil
}

// ---- WaitGroup --------------------------------------------------------------

func wgAdd(i *interpreter, wg *value, n int) {
	s := i.sched
	s.wgCount[wg] += n
	if s.wgCount[wg] < 0 {
		panic(targetPanic{iface{t: types.Typ[types.String], v: "sync: negative WaitGroup counter"}})
	}
}

func natWGAddS(fr *frame, fn *ssa.Function, args []value) value {
	fr.i.schedPoint("WaitGroup.Add")
	wgAdd(fr.i, args[0].(*value), int(fr.i.concreteInt(args[1], "WaitGroup.Add")))
	return nil
}

func natWGDoneS(fr *frame, fn *ssa.Function, args []value) value {
	fr.i.schedPoint("WaitGroup.Done")
	wgAdd(fr.i, args[0].(*value), -1)
	return nil
}

func natWGWaitS(fr *frame, fn *ssa.Function, args []value) value {
	i := fr.i
	wg := args[0].(*value)
	i.schedPoint("WaitGroup.Wait")
	i.blockUntil(func() bool { return i.sched.wgCount[wg] == 0 }, "WaitGroup.Wait in "+i.callerName())
	return nil
}

func natWGGoS(fr *frame, fn *ssa.Function, args []value) value {
	i := fr.i
	wg := args[0].(*value)
	wgAdd(i, wg, 1)
	f := args[1]
	i.spawnBody("WaitGroup.Go", func() {
		call(i, nil, 0, f, nil)
		wgAdd(i, wg, -1)
	}, nil)
	i.schedPoint("go")
	return nil
}

// ---- Cond -------------------------------------------------------------------

// sync.Cond{noCopy, L Locker, notify, checker}
func condLocker(i *interpreter, c *value) iface {
	st := (*c).(structure)
	return st[1].(iface)
}

func callLockerMethod(fr *frame, l iface, name string) {
	i := fr.i
	mset := i.prog.MethodSets.MethodSet(l.t)
	for k := 0; k < mset.Len(); k++ {
		sel := mset.At(k)
		if sel.Obj().Name() == name {
			f := i.prog.MethodValue(sel)
			call(i, fr, 0, f, []value{l.v})
			return
		}
	}
	panic(engineAbort{"sync.Cond: locker has no method " + name})
}

func natCondWait(fr *frame, fn *ssa.Function, args []value) value {
	i := fr.i
	c := args[0].(*value)
	l := condLocker(i, c)
	flag := new(bool)
	i.sched.condW[c] = append(i.sched.condW[c], flag)
	callLockerMethod(fr, l, "Unlock")
	i.blockUntil(func() bool { return *flag }, "Cond.Wait in "+i.callerName())
	callLockerMethod(fr, l, "Lock")
	return nil
}

func natCondSignal(fr *frame, fn *ssa.Function, args []value) value {
	i := fr.i
	c := args[0].(*value)
	i.schedPoint("Cond.Signal")
	if q := i.sched.condW[c]; len(q) > 0 {
		*q[0] = true
		i.sched.condW[c] = q[1:]
	}
	return nil
}

func natCondBroadcast(fr *frame, fn *ssa.Function, args []value) value {
	i := fr.i
	c := args[0].(*value)
	i.schedPoint("Cond.Broadcast")
	for _, f := range i.sched.condW[c] {
		*f = true
	}
	delete(i.sched.condW, c)
	return nil
}

// ---- timers -----------------------------------------------------------------

// time.Timer{C <-chan Time, initTimer bool}; time.Ticker likewise.
func natNewTimer(periodic, chanOnly bool) nativeFn {
	return func(fr *frame, fn *ssa.Function, args []value) value {
		i := fr.i
		ts := &timerState{periodic: periodic}
		res := fn.Signature.Results().At(0).Type()
		if chanOnly {
			return &chanObj{cap: 1, timer: ts, elem: res.Underlying().(*types.Chan).Elem()}
		}
		st := zero(mustDeref(res)).(structure)
		ct := mustDeref(res).Underlying().(*types.Struct).Field(0).Type()
		st[0] = &chanObj{cap: 1, timer: ts, elem: ct.Underlying().(*types.Chan).Elem()}
		p := new(value)
		*p = st
		i.sched.timers[p] = ts
		return p
	}
}

func natAfterFunc(fr *frame, fn *ssa.Function, args []value) value {
	i := fr.i
	ts := &timerState{}
	res := fn.Signature.Results().At(0).Type()
	st := zero(mustDeref(res)).(structure)
	p := new(value)
	*p = st
	i.sched.timers[p] = ts
	if i.sched.on {
		i.spawnSched(0, args[1], nil, ts)
	}
	return p
}

func natTimerStop(fr *frame, fn *ssa.Function, args []value) value {
	i := fr.i
	p := args[0].(*value)
	ts := i.sched.timers[p]
	if ts == nil {
		panic(runtimeErr("time: Stop called on uninitialized Timer"))
	}
	was := !ts.stopped && !ts.fired
	ts.stopped = true
	if fn.Signature.Results().Len() == 0 {
		return nil
	}
	return was
}

func natTimerReset(fr *frame, fn *ssa.Function, args []value) value {
	i := fr.i
	p := args[0].(*value)
	ts := i.sched.timers[p]
	if ts == nil {
		panic(runtimeErr("time: Reset called on uninitialized Timer"))
	}
	was := !ts.stopped && !ts.fired
	if st := (*p).(structure); st[0] != nil {
		if c, ok := st[0].(*chanObj); ok && c != nil {
			ts.stopped = false
		}
	}
	if fn.Signature.Results().Len() == 0 {
		return nil
	}
	return was
}

// encoding/hex.EncodeToString over symbolic bytes: fork-free (each output
// character is an if-then-else term over the nibble).
func natHexEncodeToString(fr *frame, fn *ssa.Function, args []value) value {
	i := fr.i
	src := args[0].([]value)
	anySym := false
	for _, b := range src {
		if isSym(b) {
			anySym = true
		}
	}
	const digits = "0123456789abcdef"
	if !anySym {
		out := make([]byte, 0, 2*len(src))
		for _, b := range src {
			c := b.(uint8)
			out = append(out, digits[c>>4], digits[c&15])
		}
		return string(out)
	}
	tt := i.tt
	nib := func(n *Term) value {
		lt := tt.Cmp("bvult", n, tt.ConstU(8, 10))
		return mkval(tt.Ite(lt, tt.BV("bvadd", n, tt.ConstU(8, '0')), tt.BV("bvadd", n, tt.ConstU(8, 'a'-10))), types.Uint8)
	}
	var out symstr
	for _, b := range src {
		if s, ok := b.(sym); ok {
			out = append(out, nib(tt.BV("bvlshr", s.t, tt.ConstU(8, 4))), nib(tt.BV("bvand", s.t, tt.ConstU(8, 15))))
		} else {
			c := b.(uint8)
			out = append(out, digits[c>>4], digits[c&15])
		}
	}
	return out
}

func init() { natives["encoding/hex.EncodeToString"] = natHexEncodeToString }

// ---- shared-state watch --------------------------------------------------------

// WatchGlobals(pkgSuffix string): from now on every write to a package-level
// variable (or to an element/field of one) of packages whose path ends in
// pkgSuffix is recorded. WatchedWrites() string lists them.
func natWatchGlobals(fr *frame, fn *ssa.Function, args []value) value {
	i := fr.i
	suffix := args[0].(string)
	if i.path.watched == nil {
		i.path.watched = map[*value]string{}
	}
	for _, pkg := range i.prog.AllPackages() {
		if pkg.Pkg == nil || !strings.HasSuffix(pkg.Pkg.Path(), suffix) {
			continue
		}
		for _, m := range pkg.Members {
			g, ok := m.(*ssa.Global)
			if !ok || g.Name() == "init$guard" {
				continue
			}
			cell := i.global(g)
			i.watchCells(cell, g.Name(), 0)
		}
	}
	return nil
}

func (i *interpreter) watchCells(cell *value, name string, depth int) {
	if depth > 4 {
		return
	}
	i.path.watched[cell] = name
	switch v := (*cell).(type) {
	case array:
		if len(v) <= 4096 {
			for k := range v {
				i.watchCells(&v[k], name, depth+1)
			}
		}
	case structure:
		for k := range v {
			i.watchCells(&v[k], name, depth+1)
		}
	}
}

func (i *interpreter) noteWrite(addr *value, fr *frame) {
	if name, ok := i.path.watched[addr]; ok && !i.inInit() {
		fnName := "?"
		if fr != nil && fr.fn != nil {
			fnName = fr.fn.String()
		}
		i.path.writes = append(i.path.writes, name+" in "+fnName)
	}
}

func natWatchedWrites(fr *frame, fn *ssa.Function, args []value) value {
	return strings.Join(fr.i.path.writes, "; ")
}

func init() {
	natives[vapiPath+".WatchGlobals"] = natWatchGlobals
	natives[vapiPath+".WatchedWrites"] = natWatchedWrites
}
