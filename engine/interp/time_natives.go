package interp

// Clock model. time.Now returns a fixed concrete instant (2026-01-01 UTC,
// no monotonic reading); time.Since returns 0 unless the harness asks for a
// symbolic clock (attribute clock=symbolic), in which case every call returns
// an arbitrary non-negative duration.

import (
	"go/types"

	"golang.org/x/tools/go/ssa"
)

const fixedNowSec = int64(63902908800) // seconds from year 1 to 2026-01-01T00:00:00Z

func init() {
	natives["time.Now"] = natTimeNow
	natives["time.Since"] = natTimeSince
	natives["time.Until"] = natTimeUntil
	natives["time.Sleep"] = natNop
}

func natTimeNow(fr *frame, fn *ssa.Function, args []value) value {
	t := zero(fn.Signature.Results().At(0).Type()).(structure)
	t[0] = uint64(0)
	t[1] = fixedNowSec + fr.i.h.clockTicks
	return t
}

func natTimeSince(fr *frame, fn *ssa.Function, args []value) value {
	i := fr.i
	if i.h.clock == "symbolic" {
		v := i.nondet("time.Since", types.Int64)
		if s, ok := v.(sym); ok {
			i.assume(i.tt.Cmp("bvsle", i.tt.ConstU(64, 0), s.t))
		}
		return v
	}
	return int64(0)
}

func natTimeUntil(fr *frame, fn *ssa.Function, args []value) value {
	return int64(0)
}
