package interp

// Clock model. time.Now returns a fixed concrete instant (2026-01-01 UTC,
// no monotonic reading); time.Since returns 0 unless the harness asks for a
// symbolic clock (attribute clock=symbolic), in which case every call returns
// an arbitrary non-negative duration.

import (
	"go/types"

	"golang.org/x/tools/go/ssa"
)

const fixedNowSec = int64(63902908800) // seconds from year 1 to 2026-01-01T00:00:00Z

func init() {
	natives["time.Now"] = natTimeNow
	natives["time.Since"] = natTimeSince
	natives["time.Until"] = natTimeUntil
}

func natTimeNow(fr *frame, fn *ssa.Function, args []value) value {
	t := zero(fn.Signature.Results().At(0).Type()).(structure)
	t[0] = uint64(0)
	t[1] = fixedNowSec + fr.i.h.clockTicks
	return t
}

func natTimeSince(fr *frame, fn *ssa.Function, args []value) value {
	i := fr.i
	if i.h.clock == "symbolic" {
		v := i.nondet("time.Since", types.Int64)
		if s, ok := v.(sym); ok {
			i.assume(i.tt.Cmp("bvsle", i.tt.ConstU(64, 0), s.t))
		}
		return v
	}
	sec, nsec, ok := timeParts(args[0].(structure))
	if !ok {
		panic(engineAbort{"time.Since of a symbolic time under a concrete clock"})
	}
	return durationBetween(fixedNowSec+i.h.clockTicks, 0, sec, nsec)
}

// timeParts returns seconds since year 1 and nanoseconds of a concrete time.Time value.
func timeParts(t structure) (sec int64, nsec int64, ok bool) {
	wall, ok1 := t[0].(uint64)
	ext, ok2 := t[1].(int64)
	if !ok1 || !ok2 {
		return 0, 0, false
	}
	nsec = int64(wall & (1<<30 - 1))
	if wall>>63 != 0 {
		const wallToInternal = (1884*365 + 1884/4 - 1884/100 + 1884/400) * 86400
		return int64(wall<<1>>31) + wallToInternal, nsec, true
	}
	return ext, nsec, true
}

func durationBetween(aSec, aNsec, bSec, bNsec int64) int64 {
	ds := aSec - bSec
	const maxSec = int64(9223372036)
	if ds > maxSec-1 {
		return 1<<63 - 1
	}
	if ds < -maxSec+1 {
		return -1 << 63
	}
	return ds*1e9 + (aNsec - bNsec)
}

func natTimeUntil(fr *frame, fn *ssa.Function, args []value) value {
	i := fr.i
	if i.h.clock == "symbolic" {
		return i.nondet("time.Until", types.Int64)
	}
	sec, nsec, ok := timeParts(args[0].(structure))
	if !ok {
		panic(engineAbort{"time.Until of a symbolic time under a concrete clock"})
	}
	return durationBetween(sec, nsec, fixedNowSec+i.h.clockTicks, 0)
}
