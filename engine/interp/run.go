package interp

// Harness execution: explores all paths of one harness function with a pool
// of workers (each an independent interpreter + solver process).

import (
	"math/big"
	"encoding/json"
	"regexp"
	"fmt"
	"go/token"
	"io"
	"os"
	"sort"
	"strings"
	"sync"
	"time"

	"golang.org/x/tools/go/ssa"
)

const (
	tokenADD = token.ADD
	tokenAND = token.AND
	tokenOR  = token.OR
)

// Violation is a counterexample to one assertion label.
type Violation struct {
	Label    string            `json:"label"`
	Model    map[string]string `json:"model"`
	Decision string            `json:"decisions"`
	Detail   string            `json:"detail,omitempty"`
}

// Result of exploring one harness.
type Result struct {
	Harness      string                       `json:"harness"`
	Paths        int                          `json:"paths"`
	Decisions    int                          `json:"decisions"`
	Forks        int                          `json:"forks"`
	Asserts      map[string]int               `json:"asserts_checked"`
	Reached      []string                     `json:"reached"`
	Witness      map[string]map[string]string `json:"witness,omitempty"`
	Violations   []Violation                  `json:"violations"`
	Inconclusive []string                     `json:"inconclusive"`
	Covered      []string                     `json:"functions_encoded"`
	Stubbed      []string                     `json:"functions_stubbed"`
	Sat          int                          `json:"queries_sat"`
	Unsat        int                          `json:"queries_unsat"`
	Unknown      int                          `json:"queries_unknown"`
	SolverSec    float64                      `json:"solver_time_s"`
	Fallbacks    int                          `json:"fallback_queries"`
	WallSec      float64                      `json:"wall_s"`
	Instrs       int64                        `json:"instructions"`
	PathSamples  []string                     `json:"path_samples,omitempty"`
	ForkSites    map[string]int               `json:"fork_sites,omitempty"`
}

// harnessRun is the per-interpreter view of a running harness.
type harnessRun struct {
	shared        *sharedRun
	goMode        string
	pendingGo     []func()
	concreteModel map[string]string
	reached       map[string]bool
	witness       map[string]map[string]string
	assertSeen    map[string]int
	logw          io.Writer
	clock         string
	clockTicks    int64
}

type sharedRun struct {
	mu         sync.Mutex
	queue      [][]choice
	active     int
	cond       *sync.Cond
	res        *Result
	violSeen   map[string]bool
	incSeen    map[string]bool
	maxPaths   int
	stop       bool
	covered    map[string]int
	stubbed    map[string]int
	reached    map[string]bool
	deadline   time.Time
	maxViolPer int
}

var hexAddr = regexp.MustCompile(`0x[0-9a-f]{6,}`)

func (i *interpreter) recordViolation(label string, extra *Term) {
	label = hexAddr.ReplaceAllString(label, "0x…") // addresses differ from path to path
	sh := i.h.shared
	m := i.model(extra)
	var sb strings.Builder
	for _, c := range i.path.trace {
		if c.kind == 'b' {
			if c.taken {
				sb.WriteByte('1')
			} else {
				sb.WriteByte('0')
			}
		} else {
			fmt.Fprintf(&sb, "v%s,", c.val.String())
		}
	}
	sh.mu.Lock()
	defer sh.mu.Unlock()
	if sh.violSeen[label] {
		return
	}
	sh.violSeen[label] = true
	sh.res.Violations = append(sh.res.Violations, Violation{Label: label, Model: m, Decision: sb.String(), Detail: i.panicStack})
}

// Options for RunHarness.
type Options struct {
	SolverArgv []string
	TimeoutMs  int
	Workers    int
	MaxPaths   int
	MaxInstrs  int64
	Verbose    bool
	GoMode     string
	Clock      string
	Preempt    int
	Timers     int
	AtomicPoints bool
	Budget     time.Duration
	Model      map[string]string // concrete re-execution of one model
}

// RunHarness explores fn (a niladic function) exhaustively.
func RunHarness(p *Program, fn *ssa.Function, opt Options) *Result {
	start := time.Now()
	res := &Result{Harness: fn.String(), Asserts: map[string]int{}, Witness: map[string]map[string]string{}}
	sh := &sharedRun{res: res, violSeen: map[string]bool{}, incSeen: map[string]bool{}, maxPaths: opt.MaxPaths,
		covered: map[string]int{}, stubbed: map[string]int{}, reached: map[string]bool{}}
	sh.cond = sync.NewCond(&sh.mu)
	sh.queue = [][]choice{nil}
	if opt.Budget > 0 {
		sh.deadline = start.Add(opt.Budget)
	}
	if opt.Workers < 1 {
		opt.Workers = 1
	}
	if opt.Model != nil {
		opt.Workers = 1
	}
	var wg sync.WaitGroup
	for w := 0; w < opt.Workers; w++ {
		wg.Add(1)
		go func(w int) {
			defer wg.Done()
			worker(p, fn, opt, sh)
		}(w)
	}
	wg.Wait()
	for k := range sh.covered {
		res.Covered = append(res.Covered, k)
	}
	sort.Strings(res.Covered)
	for k := range sh.stubbed {
		res.Stubbed = append(res.Stubbed, k)
	}
	sort.Strings(res.Stubbed)
	for k := range sh.reached {
		res.Reached = append(res.Reached, k)
	}
	sort.Strings(res.Reached)
	for k := range sh.incSeen {
		res.Inconclusive = append(res.Inconclusive, k)
	}
	sort.Strings(res.Inconclusive)
	sort.Slice(res.Violations, func(a, b int) bool { return res.Violations[a].Label < res.Violations[b].Label })
	res.WallSec = time.Since(start).Seconds()
	return res
}

func worker(p *Program, fn *ssa.Function, opt Options, sh *sharedRun) {
	var i *interpreter
	defer func() {
		if i != nil {
			sh.mu.Lock()
			sh.res.Sat += i.solver.nSat
			sh.res.Unsat += i.solver.nUnsat
			sh.res.Unknown += i.solver.nUnknown
			sh.res.SolverSec += i.solver.solverTime.Seconds()
			sh.res.Fallbacks += i.solver.nFallback
			sh.res.Decisions += i.stats.decisions
			sh.res.Forks += i.stats.forks
			for k, v := range i.covered {
				sh.covered[k] += v
			}
			for k, v := range i.stubbed {
				sh.stubbed[k] += v
			}
			if sh.res.ForkSites == nil {
				sh.res.ForkSites = map[string]int{}
			}
			for k, v := range i.forkSites {
				sh.res.ForkSites[k] += v
			}
			sh.mu.Unlock()
			i.solver.close()
		}
	}()
	for {
		sh.mu.Lock()
		for len(sh.queue) == 0 && sh.active > 0 && !sh.stop {
			sh.cond.Wait()
		}
		if sh.stop || len(sh.queue) == 0 {
			sh.mu.Unlock()
			sh.cond.Broadcast()
			return
		}
		if sh.maxPaths > 0 && sh.res.Paths >= sh.maxPaths {
			sh.incSeen[fmt.Sprintf("path budget %d exhausted with %d prefixes pending", sh.maxPaths, len(sh.queue))] = true
			sh.stop = true
			sh.mu.Unlock()
			sh.cond.Broadcast()
			return
		}
		if !sh.deadline.IsZero() && time.Now().After(sh.deadline) {
			sh.incSeen[fmt.Sprintf("time budget exhausted with %d prefixes pending", len(sh.queue))] = true
			sh.stop = true
			sh.mu.Unlock()
			sh.cond.Broadcast()
			return
		}
		// LIFO: depth-first keeps the queue small
		prefix := sh.queue[len(sh.queue)-1]
		sh.queue = sh.queue[:len(sh.queue)-1]
		sh.active++
		sh.res.Paths++
		sh.mu.Unlock()

		if i == nil {
			i = newInterpreter(p, opt.SolverArgv, opt.TimeoutMs)
			i.verbose = opt.Verbose
			if opt.MaxInstrs > 0 {
				i.maxInstrs = opt.MaxInstrs
			}
		}
		trace, instrs, sample := runPath(i, fn, prefix, opt, sh)

		sh.mu.Lock()
		sh.active--
		sh.res.Instrs += instrs
		if sample != "" && len(sh.res.PathSamples) < 5 {
			sh.res.PathSamples = append(sh.res.PathSamples, sample)
		}
		for k := len(prefix); k < len(trace); k++ {
			c := trace[k]
			if c.kind == 'b' && c.altOpen {
				np := make([]choice, k+1)
				copy(np, trace[:k])
				np[k] = choice{kind: 'b', taken: !c.taken, where: c.where}
				sh.queue = append(sh.queue, np)
			}
			if c.kind == 'n' && c.altOpen {
				for v := 1; v < c.n; v++ {
					np := make([]choice, k+1)
					copy(np, trace[:k])
					np[k] = choice{kind: 'n', val: big.NewInt(int64(v)), n: c.n, where: c.where}
					sh.queue = append(sh.queue, np)
				}
			}
		}
		sh.mu.Unlock()
		sh.cond.Broadcast()
	}
}

// runPath executes the harness once along prefix.
func runPath(i *interpreter, fn *ssa.Function, prefix []choice, opt Options, sh *sharedRun) (trace []choice, instrs int64, sample string) {
	i.h = &harnessRun{shared: sh, goMode: opt.GoMode, clock: opt.Clock, concreteModel: opt.Model, reached: map[string]bool{}, witness: map[string]map[string]string{}, assertSeen: map[string]int{}, logw: os.Stderr}
	i.newPath(prefix)
	i.schedInit(opt.GoMode == "sched", opt.Preempt, opt.Timers)
	i.sched.atomicPoints = opt.AtomicPoints
	defer i.schedTeardown()
	i.stack = i.stack[:0]
	i.panicDepth, i.panicStack = 0, ""
	outcome := "ok"
	func() {
		defer func() {
			r := recover()
			if r == nil {
				return
			}
			switch r := r.(type) {
			case pathEnd:
				outcome = "pruned: " + r.why
			case assertFail:
				outcome = "violation: " + r.label
			case engineAbort:
				outcome = "inconclusive: " + r.reason
				sh.mu.Lock()
				key := r.reason
				if !strings.Contains(key, "call stack") {
					key += i.panicStack
				}
				if len(key) > 1500 {
					key = key[:1500]
				}
				sh.incSeen[key] = true
				sh.mu.Unlock()
			case targetPanic:
				msg := "panic: " + panicString(i, r.v)
				outcome = msg
				i.recordViolation(msg, nil)
			case runtimeErr:
				msg := "panic: " + string(r)
				outcome = msg
				i.recordViolation(msg, nil)
			case error:
				// Go runtime error inside the interpreter while executing target
				// code (nil dereference, index out of range, ...): a target panic.
				msg := "panic: " + r.Error()
				if strings.Contains(r.Error(), "interface conversion") && strings.Contains(goStackTop(), "interp.") && !strings.Contains(r.Error(), "interp.") {
					// ambiguous; keep as target panic
				}
				if isInternalError(r) {
					outcome = "inconclusive: internal: " + r.Error()
					sh.mu.Lock()
					sh.incSeen["internal error: "+r.Error()+i.stackString()] = true
					sh.mu.Unlock()
				} else {
					outcome = msg
					i.recordViolation(msg, nil)
				}
			default:
				s := fmt.Sprint(r)
				if isTargetPanicString(s) {
					i.recordViolation("panic: "+s, nil)
					outcome = "panic: " + s
				} else {
					outcome = "inconclusive: internal: " + s
					sh.mu.Lock()
					sh.incSeen["internal error: "+s+i.stackString()] = true
					sh.mu.Unlock()
				}
			}
		}()
		callSSA(i, nil, token.NoPos, fn, nil, nil)
		for len(i.h.pendingGo) > 0 {
			g := i.h.pendingGo[0]
			i.h.pendingGo = i.h.pendingGo[1:]
			g()
		}
	}()
	if i.verbose {
		fmt.Fprintf(os.Stderr, "path %d decisions, %d instrs: %s\n", len(i.path.trace), i.path.instrs, outcome)
	}
	sh.mu.Lock()
	for k := range i.h.reached {
		if !sh.reached[k] {
			sh.reached[k] = true
			if w, ok := i.h.witness[k]; ok {
				sh.res.Witness[k] = w
			}
		}
	}
	for k, v := range i.h.assertSeen {
		sh.res.Asserts[k] += v
	}
	sh.mu.Unlock()
	var sb strings.Builder
	for _, c := range i.path.trace {
		if c.kind == 'b' {
			if c.taken {
				sb.WriteByte('1')
			} else {
				sb.WriteByte('0')
			}
		}
		if c.kind == 'n' {
			if c.val.Sign() == 0 {
				sb.WriteByte('.')
			} else {
				sb.WriteString("[" + c.val.String() + "]")
			}
		}
	}
	if i.verbose {
		fmt.Fprintf(os.Stderr, "trace %s\n", sb.String())
	}
	return i.path.trace, i.path.instrs, fmt.Sprintf("decisions=%s outcome=%s", sb.String(), outcome)
}

func isInternalError(err error) bool {
	s := err.Error()
	// Go runtime errors raised by the interpreter's own execution of target
	// operations are target panics; type-assertion failures on interpreter
	// value types are engine defects.
	if strings.Contains(s, "interface conversion") && strings.Contains(s, "interp.") {
		return true
	}
	return false
}

func isTargetPanicString(s string) bool {
	for _, p := range []string{"interface conversion: interface is", "method invoked on nil interface", "value method", "array length is greater", "call of nil function", "interface conversion: "} {
		if strings.HasPrefix(s, p) {
			return true
		}
	}
	return false
}

func goStackTop() string { return "" }

func panicString(i *interpreter, v value) string {
	if e, ok := v.(iface); ok {
		if s, ok := e.v.(string); ok {
			return s
		}
		// error values: ask the target's own Error method
		if f, ok := i.method(nil, e, "Error"); ok && e.t != nil && !strings.Contains(e.t.String(), "vapi.Err") {
			msg := ""
			func() {
				defer func() { recover() }()
				if r, ok := call(i, nil, 0, f, []value{e.v}).(string); ok {
					msg = r
				}
			}()
			if msg != "" {
				return e.t.String() + ": " + msg
			}
		}
		// error values: try the Msg field of *vapi.Err or errors.errorString
		if p, ok := e.v.(*value); ok && p != nil {
			if st, ok := (*p).(structure); ok && len(st) > 0 {
				if s, ok := st[0].(string); ok {
					det := ""
					if len(st) > 2 {
						if d, ok := st[2].(string); ok && d != "" {
							det = " <" + d + ">"
						}
					}
					return fmt.Sprintf("%s{%s}%s", e.t, s, det)
				}
			}
		}
		if e.t != nil {
			return e.t.String() + " " + toString(e.v)
		}
	}
	return toString(v)
}

// MarshalResult renders a result as indented JSON.
func MarshalResult(r *Result) []byte {
	b, _ := json.MarshalIndent(r, "", " ")
	return b
}
