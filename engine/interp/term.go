package interp

// SMT terms: hash-consed, constant-folded bit-vector / Bool / UF terms.

import (
	"fmt"
	"math/big"
	"sort"
	"strings"
)

// Term is an SMT-LIB term. w==0 means Bool, otherwise a bit-vector of width w.
type Term struct {
	op     string // const var not and or eq ite extract concat zext sext uf bvadd ...
	args   []*Term
	w      int
	c      *big.Int // const value (Bool: 0/1)
	name   string   // var / uf name
	hi, lo int      // extract
	id     int
}

// termTable hash-conses terms for one interpreter.
type termTable struct {
	tab   map[string]*Term
	next  int
	vars  []*Term          // declared variables, in creation order
	ufs   map[string]ufSig // declared UFs
	ufOrd []string
}

type ufSig struct {
	argw []int
	retw int
}

func newTermTable() *termTable {
	return &termTable{tab: map[string]*Term{}, ufs: map[string]ufSig{}}
}

func (tt *termTable) intern(t *Term) *Term {
	var sb strings.Builder
	fmt.Fprintf(&sb, "%s/%d/%s/%d/%d/", t.op, t.w, t.name, t.hi, t.lo)
	if t.c != nil {
		sb.WriteString(t.c.Text(16))
	}
	for _, a := range t.args {
		fmt.Fprintf(&sb, ",%d", a.id)
	}
	k := sb.String()
	if old, ok := tt.tab[k]; ok {
		return old
	}
	tt.next++
	t.id = tt.next
	tt.tab[k] = t
	if t.op == "var" {
		tt.vars = append(tt.vars, t)
	}
	return t
}

func mask(w int) *big.Int {
	m := new(big.Int).Lsh(big.NewInt(1), uint(w))
	return m.Sub(m, big.NewInt(1))
}

func (tt *termTable) Const(w int, v *big.Int) *Term {
	if w == 0 {
		panic("Const with w=0")
	}
	c := new(big.Int).And(v, mask(w))
	return tt.intern(&Term{op: "const", w: w, c: c})
}

func (tt *termTable) ConstU(w int, v uint64) *Term {
	return tt.Const(w, new(big.Int).SetUint64(v))
}

func (tt *termTable) Bool(b bool) *Term {
	c := big.NewInt(0)
	if b {
		c = big.NewInt(1)
	}
	return tt.intern(&Term{op: "const", w: 0, c: c})
}

func (t *Term) IsConst() bool { return t.op == "const" }
func (t *Term) IsTrue() bool  { return t.op == "const" && t.w == 0 && t.c.Sign() != 0 }
func (t *Term) IsFalse() bool { return t.op == "const" && t.w == 0 && t.c.Sign() == 0 }

func (tt *termTable) Var(name string, w int) *Term {
	return tt.intern(&Term{op: "var", w: w, name: name})
}

func (tt *termTable) Not(a *Term) *Term {
	if a.IsConst() {
		return tt.Bool(a.c.Sign() == 0)
	}
	if a.op == "not" {
		return a.args[0]
	}
	return tt.intern(&Term{op: "not", args: []*Term{a}})
}

func (tt *termTable) And(xs ...*Term) *Term {
	var out []*Term
	seen := map[int]bool{}
	for _, x := range xs {
		if x.IsFalse() {
			return x
		}
		if x.IsTrue() || seen[x.id] {
			continue
		}
		if x.op == "and" {
			for _, y := range x.args {
				if !seen[y.id] {
					seen[y.id] = true
					out = append(out, y)
				}
			}
			continue
		}
		seen[x.id] = true
		out = append(out, x)
	}
	for _, x := range out {
		if x.op == "not" && seen[x.args[0].id] {
			return tt.Bool(false)
		}
	}
	if len(out) == 0 {
		return tt.Bool(true)
	}
	if len(out) == 1 {
		return out[0]
	}
	return tt.intern(&Term{op: "and", args: out})
}

func (tt *termTable) Or(xs ...*Term) *Term {
	var out []*Term
	seen := map[int]bool{}
	for _, x := range xs {
		if x.IsTrue() {
			return x
		}
		if x.IsFalse() || seen[x.id] {
			continue
		}
		seen[x.id] = true
		out = append(out, x)
	}
	for _, x := range out {
		if x.op == "not" && seen[x.args[0].id] {
			return tt.Bool(true)
		}
	}
	if len(out) == 0 {
		return tt.Bool(false)
	}
	if len(out) == 1 {
		return out[0]
	}
	return tt.intern(&Term{op: "or", args: out})
}

func (tt *termTable) Implies(a, b *Term) *Term { return tt.Or(tt.Not(a), b) }

func (tt *termTable) Eq(a, b *Term) *Term {
	if a.w != b.w {
		panic(fmt.Sprintf("Eq: width mismatch %d vs %d", a.w, b.w))
	}
	if a == b {
		return tt.Bool(true)
	}
	if a.IsConst() && b.IsConst() {
		return tt.Bool(a.c.Cmp(b.c) == 0)
	}
	if a.w == 0 {
		// Bool equality with a constant
		if a.IsConst() {
			a, b = b, a
		}
		if b.IsTrue() {
			return a
		}
		if b.IsFalse() {
			return tt.Not(a)
		}
	}
	// concat == const / concat == concat with identical shapes: split (keeps
	// byte-wise array equalities small and lets injectivity reasoning work).
	if a.w > 1 {
		if xa, ok := tt.zcore(a); ok {
			if xb, ok := tt.zcore(b); ok {
				m := xa.w
				if xb.w > m {
					m = xb.w
				}
				if m < a.w {
					return tt.Eq(tt.Zext(xa, m), tt.Zext(xb, m))
				}
			}
		}
	}
	if a.id > b.id {
		a, b = b, a
	}
	return tt.intern(&Term{op: "eq", args: []*Term{a, b}})
}

func (tt *termTable) Ite(c, a, b *Term) *Term {
	if c.IsTrue() {
		return a
	}
	if c.IsFalse() {
		return b
	}
	if a == b {
		return a
	}
	if a.w == 0 {
		if a.IsTrue() && b.IsFalse() {
			return c
		}
		if a.IsFalse() && b.IsTrue() {
			return tt.Not(c)
		}
	}
	return tt.intern(&Term{op: "ite", w: a.w, args: []*Term{c, a, b}})
}

func (tt *termTable) Extract(hi, lo int, a *Term) *Term {
	if lo == 0 && hi == a.w-1 {
		return a
	}
	if a.IsConst() {
		v := new(big.Int).Rsh(a.c, uint(lo))
		return tt.Const(hi-lo+1, v)
	}
	switch a.op {
	case "concat":
		// args[0] is most significant
		off := a.w
		for _, x := range a.args {
			top := off - 1
			bot := off - x.w
			if hi <= top && lo >= bot {
				return tt.Extract(hi-bot, lo-bot, x)
			}
			off = bot
		}
	case "extract":
		return tt.Extract(a.lo+hi, a.lo+lo, a.args[0])
	case "zext":
		x := a.args[0]
		if hi < x.w {
			return tt.Extract(hi, lo, x)
		}
		if lo >= x.w {
			return tt.ConstU(hi-lo+1, 0)
		}
	case "sext":
		x := a.args[0]
		if hi < x.w {
			return tt.Extract(hi, lo, x)
		}
	}
	return tt.intern(&Term{op: "extract", w: hi - lo + 1, hi: hi, lo: lo, args: []*Term{a}})
}

// Concat: args[0] is the most significant part.
func (tt *termTable) Concat(xs ...*Term) *Term {
	var flat []*Term
	for _, x := range xs {
		if x.op == "concat" {
			flat = append(flat, x.args...)
		} else {
			flat = append(flat, x)
		}
	}
	// merge adjacent constants and adjacent extracts of one term
	var out []*Term
	for _, x := range flat {
		if n := len(out); n > 0 {
			p := out[n-1]
			if p.IsConst() && x.IsConst() {
				v := new(big.Int).Lsh(p.c, uint(x.w))
				v.Or(v, x.c)
				out[n-1] = tt.Const(p.w+x.w, v)
				continue
			}
			if p.op == "extract" && x.op == "extract" && p.args[0] == x.args[0] && p.lo == x.hi+1 {
				out[n-1] = tt.Extract(p.hi, x.lo, p.args[0])
				continue
			}
		}
		out = append(out, x)
	}
	if len(out) == 1 {
		return out[0]
	}
	w := 0
	for _, x := range out {
		w += x.w
	}
	return tt.intern(&Term{op: "concat", w: w, args: out})
}

func (tt *termTable) Zext(a *Term, w int) *Term {
	if w == a.w {
		return a
	}
	if w < a.w {
		return tt.Extract(w-1, 0, a)
	}
	if a.IsConst() {
		return tt.Const(w, a.c)
	}
	if a.op == "zext" {
		return tt.Zext(a.args[0], w)
	}
	if a.op == "concat" && isZeroConst(a.args[0]) {
		return tt.Zext(tt.Concat(a.args[1:]...), w)
	}
	return tt.intern(&Term{op: "zext", w: w, args: []*Term{a}})
}

func toSigned(v *big.Int, w int) *big.Int {
	r := new(big.Int).Set(v)
	if w > 0 && r.Bit(w-1) == 1 {
		r.Sub(r, new(big.Int).Lsh(big.NewInt(1), uint(w)))
	}
	return r
}

func (tt *termTable) Sext(a *Term, w int) *Term {
	if w == a.w {
		return a
	}
	if w < a.w {
		return tt.Extract(w-1, 0, a)
	}
	if a.IsConst() {
		return tt.Const(w, toSigned(a.c, a.w))
	}
	return tt.intern(&Term{op: "sext", w: w, args: []*Term{a}})
}

// BV builds a binary bit-vector operation (result width = operand width).
func (tt *termTable) BV(op string, a, b *Term) *Term {
	if a.w != b.w || a.w == 0 {
		panic(fmt.Sprintf("BV %s: widths %d %d", op, a.w, b.w))
	}
	w := a.w
	if a.IsConst() && b.IsConst() {
		x, y := a.c, b.c
		r := new(big.Int)
		switch op {
		case "bvadd":
			r.Add(x, y)
		case "bvsub":
			r.Sub(x, y)
		case "bvmul":
			r.Mul(x, y)
		case "bvand":
			r.And(x, y)
		case "bvor":
			r.Or(x, y)
		case "bvxor":
			r.Xor(x, y)
		case "bvudiv":
			if y.Sign() == 0 {
				r = mask(w)
			} else {
				r.Div(x, y)
			}
		case "bvurem":
			if y.Sign() == 0 {
				r.Set(x)
			} else {
				r.Mod(x, y)
			}
		case "bvsdiv":
			if y.Sign() == 0 {
				goto nofold
			}
			r.Quo(toSigned(x, w), toSigned(y, w))
		case "bvsrem":
			if y.Sign() == 0 {
				goto nofold
			}
			r.Rem(toSigned(x, w), toSigned(y, w))
		case "bvshl":
			if y.Cmp(big.NewInt(int64(w))) >= 0 {
				r.SetInt64(0)
			} else {
				r.Lsh(x, uint(y.Uint64()))
			}
		case "bvlshr":
			if y.Cmp(big.NewInt(int64(w))) >= 0 {
				r.SetInt64(0)
			} else {
				r.Rsh(x, uint(y.Uint64()))
			}
		case "bvashr":
			sx := toSigned(x, w)
			if y.Cmp(big.NewInt(int64(w))) >= 0 {
				if sx.Sign() < 0 {
					r.SetInt64(-1)
				} else {
					r.SetInt64(0)
				}
			} else {
				r.Rsh(sx, uint(y.Uint64()))
			}
		default:
			goto nofold
		}
		return tt.Const(w, r)
	}
nofold:
	// identities
	switch op {
	case "bvadd", "bvor", "bvxor":
		if a.IsConst() && a.c.Sign() == 0 {
			return b
		}
		if b.IsConst() && b.c.Sign() == 0 {
			return a
		}
	case "bvsub", "bvshl", "bvlshr", "bvashr":
		if b.IsConst() && b.c.Sign() == 0 {
			return a
		}
	case "bvand":
		if (a.IsConst() && a.c.Sign() == 0) || (b.IsConst() && b.c.Sign() == 0) {
			return tt.ConstU(w, 0)
		}
		if a.IsConst() && a.c.Cmp(mask(w)) == 0 {
			return b
		}
		if b.IsConst() && b.c.Cmp(mask(w)) == 0 {
			return a
		}
	case "bvmul":
		if a.IsConst() && a.c.Cmp(big.NewInt(1)) == 0 {
			return b
		}
		if b.IsConst() && b.c.Cmp(big.NewInt(1)) == 0 {
			return a
		}
		if (a.IsConst() && a.c.Sign() == 0) || (b.IsConst() && b.c.Sign() == 0) {
			return tt.ConstU(w, 0)
		}
	}
	if op == "bvsub" && a == b {
		return tt.ConstU(w, 0)
	}
	// constant shifts become extract/concat (cheaper for solvers, and lets
	// byte-packing code simplify structurally)
	if b.IsConst() && b.c.IsUint64() {
		n := int(b.c.Uint64())
		switch op {
		case "bvshl":
			if n >= w {
				return tt.ConstU(w, 0)
			}
			return tt.Concat(tt.Extract(w-1-n, 0, a), tt.ConstU(n, 0))
		case "bvlshr":
			if n >= w {
				return tt.ConstU(w, 0)
			}
			return tt.Concat(tt.ConstU(n, 0), tt.Extract(w-1, n, a))
		}
	}
	if op == "bvor" {
		if r := tt.orAsConcat(a, b); r != nil {
			return r
		}
	}
	if op == "bvand" {
		if r := tt.andMask(a, b); r != nil {
			return r
		}
	}
	if op == "bvmul" {
		if xa, ok := tt.zcore(a); ok {
			if xb, ok := tt.zcore(b); ok && xa.w+xb.w < w {
				m := xa.w + xb.w
				return tt.Zext(tt.BV("bvmul", tt.Zext(xa, m), tt.Zext(xb, m)), w)
			}
		}
	}
	switch op {
	case "bvadd":
		return tt.sum(w, a, b)
	case "bvmul", "bvand", "bvor", "bvxor":
		if a.id > b.id {
			a, b = b, a
		}
	}
	return tt.intern(&Term{op: op, w: w, args: []*Term{a, b}})
}

// zcore returns (x, true) when t = zero_extend(x) for some strictly narrower x
// (including constants and concatenations with a zero prefix).
func (tt *termTable) zcore(t *Term) (*Term, bool) {
	switch t.op {
	case "zext":
		return t.args[0], true
	case "const":
		if t.w > 1 {
			n := t.c.BitLen()
			if n == 0 {
				n = 1
			}
			if n < t.w {
				return tt.Const(n, t.c), true
			}
		}
	case "concat":
		if isZeroConst(t.args[0]) {
			return tt.Concat(t.args[1:]...), true
		}
	}
	return nil, false
}

func log2ceil(n int) int {
	k := 0
	for (1 << k) < n {
		k++
	}
	return k
}

// sum builds a canonical sum: nested additions are flattened, constants are
// folded, and the operands are ordered by term id, so that sums that differ
// only by associativity/commutativity become the same term.
func (tt *termTable) sum(w int, xs ...*Term) *Term {
	var flat []*Term
	c := new(big.Int)
	var walk func(t *Term)
	walk = func(t *Term) {
		switch {
		case t.IsConst():
			c.Add(c, t.c)
		case t.op == "bvadd":
			for _, a := range t.args {
				walk(a)
			}
		case t.op == "zext" && t.args[0].op == "bvadd" && t.args[0].name == "nw":
			// a non-wrapping narrow sum: its operands may be re-associated
			for _, a := range t.args[0].args {
				walk(tt.Zext(a, w))
			}
		default:
			flat = append(flat, t)
		}
	}
	for _, x := range xs {
		walk(x)
	}
	sort.Slice(flat, func(i, j int) bool { return flat[i].id < flat[j].id })
	c.And(c, mask(w))
	if c.Sign() != 0 {
		flat = append(flat, tt.Const(w, c))
	}
	switch len(flat) {
	case 0:
		return tt.ConstU(w, 0)
	case 1:
		return flat[0]
	}
	// narrowing: a sum of zero-extended operands that cannot carry out of m
	// bits is computed at width m (much cheaper to bit-blast)
	maxw := 0
	cores := make([]*Term, len(flat))
	ok := true
	for k, t := range flat {
		x, is := tt.zcore(t)
		if !is {
			ok = false
			break
		}
		cores[k] = x
		if x.w > maxw {
			maxw = x.w
		}
	}
	if ok {
		m := maxw + log2ceil(len(flat))
		if m < w {
			for k := range cores {
				cores[k] = tt.Zext(cores[k], m)
			}
			sort.Slice(cores, func(i, j int) bool { return cores[i].id < cores[j].id })
			return tt.Zext(tt.sumRaw(m, cores), w)
		}
	}
	return tt.intern(&Term{op: "bvadd", w: w, args: flat})
}

func (tt *termTable) sumRaw(w int, xs []*Term) *Term {
	// xs are already narrow; fold constants again
	var flat []*Term
	c := new(big.Int)
	for _, x := range xs {
		if x.IsConst() {
			c.Add(c, x.c)
		} else if x.op == "bvadd" {
			flat = append(flat, x.args...)
		} else {
			flat = append(flat, x)
		}
	}
	c.And(c, mask(w))
	if c.Sign() != 0 {
		flat = append(flat, tt.Const(w, c))
	}
	sort.Slice(flat, func(i, j int) bool { return flat[i].id < flat[j].id })
	if len(flat) == 1 {
		return flat[0]
	}
	if len(flat) == 0 {
		return tt.ConstU(w, 0)
	}
	return tt.intern(&Term{op: "bvadd", name: "nw", w: w, args: flat})
}

// pieces returns t as a list of (term) pieces from MSB to LSB.
func pieces(t *Term) []*Term {
	if t.op == "concat" {
		return t.args
	}
	return []*Term{t}
}

func isZeroConst(t *Term) bool { return t.IsConst() && t.c.Sign() == 0 }

// splitAt cuts piece list at bit boundaries so that both lists share boundaries.
func (tt *termTable) alignPieces(a, b []*Term) ([]*Term, []*Term) {
	var ra, rb []*Term
	i, j := 0, 0
	var ca, cb *Term
	for {
		if ca == nil {
			if i >= len(a) {
				break
			}
			ca = a[i]
			i++
		}
		if cb == nil {
			if j >= len(b) {
				break
			}
			cb = b[j]
			j++
		}
		switch {
		case ca.w == cb.w:
			ra = append(ra, ca)
			rb = append(rb, cb)
			ca, cb = nil, nil
		case ca.w > cb.w:
			ra = append(ra, tt.Extract(ca.w-1, ca.w-cb.w, ca))
			rb = append(rb, cb)
			ca = tt.Extract(ca.w-cb.w-1, 0, ca)
			cb = nil
		default:
			rb = append(rb, tt.Extract(cb.w-1, cb.w-ca.w, cb))
			ra = append(ra, ca)
			cb = tt.Extract(cb.w-ca.w-1, 0, cb)
			ca = nil
		}
	}
	return ra, rb
}

// orAsConcat: a|b where at every aligned piece one side is constant zero.
func (tt *termTable) orAsConcat(a, b *Term) *Term {
	if a.op != "concat" && b.op != "concat" {
		return nil
	}
	pa, pb := tt.alignPieces(pieces(a), pieces(b))
	out := make([]*Term, len(pa))
	for i := range pa {
		switch {
		case isZeroConst(pa[i]):
			out[i] = pb[i]
		case isZeroConst(pb[i]):
			out[i] = pa[i]
		case pa[i].IsConst() && pb[i].IsConst():
			out[i] = tt.Const(pa[i].w, new(big.Int).Or(pa[i].c, pb[i].c))
		default:
			return nil
		}
	}
	return tt.Concat(out...)
}

// andMask: a & const where const is a run mask like 0x7ff or 0xff00.
func (tt *termTable) andMask(a, b *Term) *Term {
	if a.IsConst() {
		a, b = b, a
	}
	if !b.IsConst() {
		return nil
	}
	// find contiguous run of ones
	m := b.c
	if m.Sign() == 0 {
		return nil
	}
	lo := int(m.TrailingZeroBits())
	hi := m.BitLen() - 1
	run := new(big.Int).Lsh(mask(hi-lo+1), uint(lo))
	if run.Cmp(m) != 0 {
		return nil
	}
	parts := []*Term{}
	if hi < a.w-1 {
		parts = append(parts, tt.ConstU(a.w-1-hi, 0))
	}
	parts = append(parts, tt.Extract(hi, lo, a))
	if lo > 0 {
		parts = append(parts, tt.ConstU(lo, 0))
	}
	return tt.Concat(parts...)
}

func (tt *termTable) BVNot(a *Term) *Term {
	if a.IsConst() {
		return tt.Const(a.w, new(big.Int).Xor(a.c, mask(a.w)))
	}
	return tt.intern(&Term{op: "bvnot", w: a.w, args: []*Term{a}})
}

func (tt *termTable) BVNeg(a *Term) *Term {
	if a.IsConst() {
		return tt.Const(a.w, new(big.Int).Neg(a.c))
	}
	return tt.intern(&Term{op: "bvneg", w: a.w, args: []*Term{a}})
}

// Cmp builds bvult/bvule/bvslt/bvsle (Bool result).
func (tt *termTable) Cmp(op string, a, b *Term) *Term {
	if a.w != b.w || a.w == 0 {
		panic(fmt.Sprintf("Cmp %s: widths %d %d", op, a.w, b.w))
	}
	if a.IsConst() && b.IsConst() {
		var c int
		if op == "bvslt" || op == "bvsle" {
			c = toSigned(a.c, a.w).Cmp(toSigned(b.c, b.w))
		} else {
			c = a.c.Cmp(b.c)
		}
		switch op {
		case "bvult", "bvslt":
			return tt.Bool(c < 0)
		default:
			return tt.Bool(c <= 0)
		}
	}
	if a == b {
		return tt.Bool(op == "bvule" || op == "bvsle")
	}
	if xa, ok := tt.zcore(a); ok {
		if xb, ok := tt.zcore(b); ok {
			m := xa.w
			if xb.w > m {
				m = xb.w
			}
			if m < a.w {
				// both operands are non-negative in m+1 bits: signed and
				// unsigned comparison coincide
				uop := op
				if op == "bvslt" {
					uop = "bvult"
				} else if op == "bvsle" {
					uop = "bvule"
				}
				return tt.Cmp(uop, tt.Zext(xa, m), tt.Zext(xb, m))
			}
		}
	}
	return tt.intern(&Term{op: op, args: []*Term{a, b}})
}

// UF applies an uninterpreted function.
func (tt *termTable) UF(name string, retw int, args ...*Term) *Term {
	argw := make([]int, len(args))
	for i, a := range args {
		argw[i] = a.w
	}
	full := name
	if sig, ok := tt.ufs[full]; ok {
		if sig.retw != retw || fmt.Sprint(sig.argw) != fmt.Sprint(argw) {
			panic("UF " + name + " used with two signatures")
		}
	} else {
		tt.ufs[full] = ufSig{argw, retw}
		tt.ufOrd = append(tt.ufOrd, full)
	}
	return tt.intern(&Term{op: "uf", w: retw, name: full, args: args})
}

func sortName(w int) string {
	if w == 0 {
		return "Bool"
	}
	return fmt.Sprintf("(_ BitVec %d)", w)
}

func constLit(t *Term) string {
	if t.w == 0 {
		if t.c.Sign() != 0 {
			return "true"
		}
		return "false"
	}
	if t.w%4 == 0 {
		s := t.c.Text(16)
		return "#x" + strings.Repeat("0", t.w/4-len(s)) + s
	}
	s := t.c.Text(2)
	return "#b" + strings.Repeat("0", t.w-len(s)) + s
}

// ref returns how a term is referred to inside other terms.
func ref(t *Term) string {
	switch t.op {
	case "const":
		return constLit(t)
	case "var":
		return "|" + t.name + "|"
	}
	return fmt.Sprintf("t%d", t.id)
}

// body returns the SMT-LIB expression of t in terms of refs of its args.
func body(t *Term) string {
	var sb strings.Builder
	switch t.op {
	case "const", "var":
		return ref(t)
	case "extract":
		fmt.Fprintf(&sb, "((_ extract %d %d) %s)", t.hi, t.lo, ref(t.args[0]))
	case "zext":
		fmt.Fprintf(&sb, "((_ zero_extend %d) %s)", t.w-t.args[0].w, ref(t.args[0]))
	case "sext":
		fmt.Fprintf(&sb, "((_ sign_extend %d) %s)", t.w-t.args[0].w, ref(t.args[0]))
	case "uf":
		if len(t.args) == 0 {
			return "|" + t.name + "|"
		}
		sb.WriteString("(|" + t.name + "|")
		for _, a := range t.args {
			sb.WriteString(" " + ref(a))
		}
		sb.WriteString(")")
	case "eq":
		fmt.Fprintf(&sb, "(= %s %s)", ref(t.args[0]), ref(t.args[1]))
	default:
		sb.WriteString("(" + t.op)
		for _, a := range t.args {
			sb.WriteString(" " + ref(a))
		}
		sb.WriteString(")")
	}
	return sb.String()
}

// String renders a term fully (for diagnostics; may be large).
func (t *Term) String() string {
	if t.op == "const" || t.op == "var" {
		return ref(t)
	}
	var sb strings.Builder
	switch t.op {
	case "extract":
		fmt.Fprintf(&sb, "((_ extract %d %d) %s)", t.hi, t.lo, t.args[0])
	case "zext", "sext":
		fmt.Fprintf(&sb, "(%s%d %s)", t.op, t.w, t.args[0])
	case "uf":
		sb.WriteString("(" + t.name)
		for _, a := range t.args {
			sb.WriteString(" " + a.String())
		}
		sb.WriteString(")")
	default:
		sb.WriteString("(" + t.op)
		for _, a := range t.args {
			sb.WriteString(" " + a.String())
		}
		sb.WriteString(")")
	}
	s := sb.String()
	if len(s) > 400 {
		return s[:400] + "…"
	}
	return s
}

// collectVars returns the variables occurring in ts, sorted by name.
func collectVars(ts ...*Term) []*Term {
	seen := map[int]bool{}
	var out []*Term
	var walk func(t *Term)
	walk = func(t *Term) {
		if seen[t.id] {
			return
		}
		seen[t.id] = true
		if t.op == "var" {
			out = append(out, t)
		}
		for _, a := range t.args {
			walk(a)
		}
	}
	for _, t := range ts {
		walk(t)
	}
	sort.Slice(out, func(i, j int) bool { return out[i].name < out[j].name })
	return out
}
